#!/usr/bin/env python3
"""oas_judge.py <pairs.jsonl> — re-judges (schema, components, instance) triples with python
jsonschema's Draft4Validator (OpenAPI nullable translated, multipleOf dropped: binary floats).
Prints one line per triple: "<id> valid" | "<id> invalid <message>" | "<id> error <message>"."""
import json, sys
from jsonschema import Draft4Validator, RefResolver

def tr(s):
    if isinstance(s, dict):
        s = {k: tr(v) for k, v in s.items() if k != 'multipleOf'}
        if 'example' in s:
            s.pop('example')
        if s.get('nullable') is True:
            s2 = {k: v for k, v in s.items() if k != 'nullable'}
            return {'anyOf': [s2, {'enum': [None]}]}
        s.pop('nullable', None)
        return s
    if isinstance(s, list):
        return [tr(x) for x in s]
    return s

for line in open(sys.argv[1]):
    o = json.loads(line)
    try:
        doc = {'components': {'schemas': {k: tr(v) for k, v in o['components'].items()}}}
        schema = tr(o['schema'])
        v = Draft4Validator(schema, resolver=RefResolver.from_schema(doc))
        errs = list(v.iter_errors(o['instance']))
        if errs:
            print(o['id'], 'invalid', errs[0].message[:100].replace('\n', ' '))
        else:
            print(o['id'], 'valid')
    except Exception as e:
        print(o['id'], 'error', repr(e)[:100].replace('\n', ' '))
