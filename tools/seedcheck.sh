#!/bin/bash
# seedcheck.sh <seed dir name, e.g. C05-a> <property id> [more property ids to run]
# Confirms a sub-agent's seeded change (applies, builds, baseline green, demo fails with / passes
# without), stores it under /verif/seeded/<name>/, runs the checks against it through the overlay.
set -u
export GOFLAGS=-mod=mod GOPROXY=off GOSUMDB=off GOTOOLCHAIN=local
NAME="$1"; shift; PROPS="$@"
SRC=/tmp/seed/$NAME; DST=/verif/seeded/$NAME
[ -f "$SRC/SEED/patch.diff" ] || { echo "no patch.diff in $SRC/SEED"; exit 2; }
mkdir -p "$DST"; cp -r "$SRC/SEED/." "$DST/"; cp "$SRC/PROPERTY.md" "$DST/PROPERTY.md" 2>/dev/null
PATCH="$DST/patch.diff"
git -C "$SRC" checkout -q -- . 2>/dev/null
APPLIES=no; BUILD=no; TESTS=no; DEMO_WITH=unknown; DEMO_WITHOUT=unknown
demo() { # run the demonstration inside $SRC; prints pass|fail
  if ls "$SRC"/SEED/*_test.go >/dev/null 2>&1; then
    (cd "$SRC" && go test -vet=off -count=1 ./SEED/... >/dev/null 2>&1) && echo pass || echo fail
  elif [ -f "$SRC/SEED/demo/main.go" ]; then
    (cd "$SRC" && go run ./SEED/demo >/dev/null 2>&1) && echo pass || echo fail
  else echo none; fi
}
DEMO_WITHOUT=$(demo)
if git -C "$SRC" apply "$PATCH" 2>/dev/null; then
  APPLIES=yes
  (cd "$SRC" && go build ./... 2>/dev/null) && BUILD=yes
  DEMO_WITH=$(demo)
  # the repository's own baseline, without the demo package
  mv "$SRC/SEED" "$SRC.SEED.tmp"
  /verif/tools/baseline_check.py "$SRC" > "$DST/baseline.txt" 2>&1 && TESTS=yes
  mv "$SRC.SEED.tmp" "$SRC/SEED"
  git -C "$SRC" checkout -q -- .
fi
echo "applies=$APPLIES build=$BUILD baseline=$TESTS demo_without=$DEMO_WITHOUT demo_with=$DEMO_WITH"
RES=""
for P in $PROPS; do
  VERIF_MUT="$PATCH" /verif/run.sh "$P" quick > "$DST/check-$P.txt" 2>&1; R=$?
  V=$(grep -c '^VIOLATION' "$DST/check-$P.txt")
  if [ $R -eq 1 ]; then RES="$RES $P=DETECTED($V)"; else RES="$RES $P=missed(exit$R)"; fi
  grep -m2 '^  \[' "$DST/check-$P.txt" | cut -c1-260
done
echo "RESULT $NAME:$RES"
python3 - "$DST" "$NAME" "$APPLIES" "$BUILD" "$TESTS" "$DEMO_WITHOUT" "$DEMO_WITH" "$RES" <<'PY'
import json, sys, os
dst, name, applies, build, tests, dwo, dw, res = sys.argv[1:9]
meta = {"seed": name, "breaks_property": name.split('-')[0], "author": "independent sub-agent (given only the property text and a scratch worktree)",
        "confirmed": {"patch_applies": applies, "builds": build, "repository_baseline_passes_with_change": tests,
                      "demo_without_change": dwo, "demo_with_change": dw},
        "checks_run": res.strip(), "needs_to_manifest": "see NOTES.md"}
p = os.path.join(dst, "meta.json")
old = {}
if os.path.exists(p):
    try: old = json.load(open(p))
    except Exception: pass
old.update(meta)
json.dump(old, open(p, "w"), indent=1)
PY
