#!/bin/bash
# covrun.sh [Cxx ...] — statement coverage of the library under the quick tier (gap finder,
# not a check). Builds coverage-instrumented copies of the checker from scratch copies of
# /repo with the overlay materialised (go's cover tool does not read overlays), runs the
# given checks (default: all) and prints the uncovered blocks with their source to
# /tmp/uncovered.txt. Scratch: /tmp/covrepo*, /tmp/covmc*, /tmp/cov (removed at the end).
set -u
export GOFLAGS=-mod=mod GOPROXY=off GOSUMDB=off GOTOOLCHAIN=local
V=/verif
PROPS="${@:-C01 C02 C03 C04 C05 C06 C07 C08 C09 C10 C11 C12 C13 C14 C15 C16 C17 C18 C19 C20}"
$V/run.sh build >/dev/null 2>&1 || { echo "build failed"; exit 2; }
for d in /tmp/covrepo /tmp/covrepo2; do git -C /repo worktree remove --force $d 2>/dev/null; rm -rf $d; done
rm -rf /tmp/covmc /tmp/covmc2 /tmp/cov; mkdir -p /tmp/cov $V/.build-cov
git -C /repo worktree add -q --detach /tmp/covrepo HEAD && git -C /repo worktree add -q --detach /tmp/covrepo2 HEAD || exit 2
git -C /repo diff | git -C /tmp/covrepo apply 2>/dev/null; git -C /repo diff | git -C /tmp/covrepo2 apply 2>/dev/null
python3 - <<'PY'
import json,os,shutil
for ov,root in (('/verif/.build/overlay.json','/tmp/covrepo'),('/verif/.build/overlay-inst.json','/tmp/covrepo2')):
    for dst,src in json.load(open(ov))['Replace'].items():
        t=root+'/'+dst[len('/repo/'):]
        os.makedirs(os.path.dirname(t),exist_ok=True)
        if src: shutil.copy(src,t)
PY
PKG=github.com/jsightapi/jsight-schema-core/...,verifmc/cmd/mc
cp -r $V/mc /tmp/covmc && (cd /tmp/covmc && sed -i 's|=> /repo|=> /tmp/covrepo|' go.mod && go build -cover -coverpkg=$PKG -tags verif -o $V/.build-cov/mc ./cmd/mc) || exit 2
cp -r $V/mc /tmp/covmc2 && (cd /tmp/covmc2 && sed -i 's|=> /repo|=> /tmp/covrepo2|' go.mod && go build -cover -coverpkg=$PKG -tags "verif verifinst" -o $V/.build-cov/mc-inst ./cmd/mc) || exit 2
cp $V/.build/racer $V/.build-cov/racer 2>/dev/null
export VERIF_BUILD=.build-cov VERIF_OUT=$V/.build-cov/out GOCOVERDIR=/tmp/cov
cd $V
for p in $PROPS; do
  case $p in C09|C10|C11) B=mc-inst;; *) B=mc;; esac
  .build-cov/$B check $p --tier quick > /tmp/cov.$p.txt 2>&1; echo "$p exit=$?"
done
(cd /tmp/covmc && go tool covdata textfmt -i=/tmp/cov -o /tmp/cov.txt)
python3 - <<'PY' > /tmp/uncovered.txt
import re,collections
blocks={}
for l in open('/tmp/cov.txt'):
    if l.startswith('mode:'): continue
    f,l1,c1,l2,c2,n,cnt=re.match(r'(.*):(\d+)\.(\d+),(\d+)\.(\d+) (\d+) (\d+)',l).groups()
    f=f.replace('github.com/jsightapi/jsight-schema-core/','')
    if 'verifshim' in f or 'zz_verif' in f or f.startswith('verifmc'): continue
    k=(f,int(l1),int(l2)); blocks[k]=(int(n),max(int(cnt),blocks.get(k,(0,0))[1]))
tot=sum(n for n,c in blocks.values()); cov=sum(n for n,c in blocks.values() if c>0)
print(f"statements {tot} covered {cov} ({100*cov/tot:.1f}%)  (files rewritten by the instrumented build are counted twice)")
unc=collections.defaultdict(list)
for (f,a,b),(n,c) in blocks.items():
    if c==0: unc[f].append((a,b))
for f in sorted(unc):
    try: src=open('/tmp/covrepo/'+f).read().split('\n')
    except Exception: continue
    print('=====',f)
    for a,b in sorted(unc[f]): print(f'  {a}-{b}: '+' | '.join(x.strip() for x in src[a-1:min(b,a+2)])[:160])
PY
head -1 /tmp/uncovered.txt
for d in /tmp/covrepo /tmp/covrepo2; do git -C /repo worktree remove --force $d 2>/dev/null; done
rm -rf /tmp/covmc /tmp/covmc2 /tmp/cov $V/.build-cov
