#!/usr/bin/env python3
"""Regenerates /verif/MANIFEST.json from the table below (kept next to the code so that the
claimed list, techniques and not_applicable reasons never drift apart)."""
import json, subprocess

P = {}
def prop(pid, engine, technique, text, note, claimed=True, reason=""):
    P[pid] = dict(engine=engine, technique=technique, text=text, note=note, claimed=claimed, reason=reason)

prop("C12", "E-SEQ + E-STATE",
     "bounded exhaustive input enumeration + explicit-state search over the real scanner, reference-model comparison",
     "Every string of <=6 (thorough 7) tokens over a 24-token JSON alphabet and every reachable abstract state of the real document scanner x every byte class x end-of-input, in both option settings, is executed on the implementation and judged against an RFC 8259 push-down recogniser cross-checked with encoding/json; lexeme streams are rebuilt into trees and compared with encoding/json's decoder.",
     "Trusts encoding/json as RFC 8259 reference; nesting bounded by token count / open-lexeme depth; maximal-munch cases in trailing mode carry no claim.")
prop("C13", "E-SEQ + E-STATE + all-pairs",
     "bounded exhaustive enumeration of number texts, explicit-state search of the recogniser, all pairs of a small-scope set against math/big",
     "Every string of <=7 (thorough 8) bytes over {0 1 9 - . e E + x} is fed to NewNumber and judged by the JSON number grammar; all ordered pairs of the grammar-valid strings of length <=5 (thorough 6) and a shift grid up to 10^+-4999 are compared with exact rational arithmetic (Cmp, Equal, four predicates, String, LengthOfFractionalPart).",
     "Trusts math/big and regexp. Exponents beyond +-4999 are a resource question handled under C02.")

prop("C18", "E-SEQ",
     "bounded exhaustive enumeration of regex-schema texts, reference delimiter rule + Go regexp",
     "Every string of <=6 (thorough 7) bytes over the 17-byte alphabet {/ \\ a ( ) [ ] * + ? . | { } 1 ^ $} and the empty text is given to regex.New; acceptance is compared with a 15-line delimiter reference plus regexp.Compile, rejections must be positioned diagnostics, and for accepted texts Len, Example (matched by the pattern), AST, OpenAPI pattern and the behaviour as user type @r against 8 instance strings are checked.",
     "Trusts Go regexp for validity and matching. Example-matches is demanded only for patterns satisfiable by a string of <=3 characters.")
prop("C19", "E-OPS",
     "explicit-state BFS over (container private state, reference dict) pairs + exhaustive operation sequences up to a depth bound",
     "For RuleASTNodes, ASTNodes, Constraints and StringSet the real methods are driven through every operation (Set, Update, Delete of present and absent keys, Filter with 6 predicates, Map; Add/NewStringSet) from every reachable state until the state graph closes, and through every sequence of <=5 (thorough 6) operations; after each step all observables are compared with an insertion-ordered dictionary.",
     "Keys {a,b,c}, values {1,2}; callbacks do not re-enter the container; MarshalJSON of ischema.Constraints (integer keys) is outside the claim.")
prop("C20", "E-SEQ + finite enumeration",
     "complete enumeration of the type vocabulary + bounded exhaustive enumeration of literal texts against the scanner's classifier",
     "All 18x18 SchemaType pairs (reflexive, symmetric, documented families), IsValidType on every documented name and every edit-distance-1 variant, token-type agreement of schema and JSON types, and GuessSchemaType on every token string of <=6 (thorough 7) tokens over a 15-token literal alphabet compared with the schema scanner's own classification (24 repetitions each).",
     "Vocabulary = constants of type.go; map-order independence is decided structurally by the instrumented build (C09).")

prop("C02", "E-SEQ + E-STATE + E-GEN",
     "bounded exhaustive inputs + explicit-state search of the real scanners + exhaustive small reference graphs, executed in crash-contained worker processes",
     "Per entry point (schema, enum rule, regex, JSON document, number): all token strings up to N tokens, every reachable abstract state of the three scanners and the number recogniser x every byte class x end-of-input (both scanner modes), every prefix of every valid text of the repository's test corpus, all projects of <=3 self/mutually referencing types from 13 reference forms x every registered subset, and an exponent grid; each case runs the whole public call bundle under recover in a worker with a stack limit, an address-space limit and a watchdog, so panics, stack overflows, aborts and hangs are all observed and attributed to the exact input.",
     "Bounds: schema 4 (thorough 5) tokens over 31, open lexemes <=5 (7); 'bounded time' = 120 s watchdog per case; deeper nesting than the bound is not covered.")
prop("C16", "E-SEQ + E-STATE + E-GEN",
     "same exhaustive spaces as C02 plus single-token mutations of valid corpus texts under LF/CRLF/CR; every returned error judged by a diagnostic well-formedness oracle with an independent line/column reference",
     "Every error returned by any call of the bundle on any enumerated input must carry a numeric code, must not be a Go runtime error, internal-failure code or struct/address dump, must render without panicking, and when positioned must have its index inside the file it names, line/column equal to an independent reference and must quote that line.",
     "Line/column compared only for single-convention texts and indices not on a terminator byte; only code 1 and wrapped runtime errors count as 'internal failure'.")

prop("C17", "E-SEQ + E-STATE + E-GEN",
     "bounded exhaustive enum-rule texts + explicit-state search of the enum scanner + exhaustive lists x layouts x example values (rule file vs inline differential)",
     "Acceptance of every string of <=5 (thorough 6) tokens over a 17-token comment-free alphabet and of every reachable enum-scanner state x byte class is compared with an encoding/json-based reference (list of distinct scalars, no exponents), Values() is compared entry by entry, and for every list of <=3 entries over 17 scalars x 5 annotation/comment layouts x 17 example values the schema using `enum: @e` must have the verdict and example of the schema with the list inline.",
     "Annotation syntax is judged through the five generated layouts only; strings are ASCII plus one \\u escape spelling.")

prop("C03", "E-GEN",
     "bounded exhaustive enumeration of JSON values x whitespace layouts, compared with encoding/json's ordered decoding",
     "All JSON values of depth <=2 (thorough 3) and width <=2 over 28 scalar spellings (escapes, \\u spellings, surrogate pairs, -0, leading-zero fractions, strings that look like comments/annotations/references) and 15 key spellings, under 6 whitespace/newline layouts: Check() must accept, Example() must decode to the same ordered tree, GetAST() must have the same shape with decoded keys and values.",
     "Duplicate decoded keys and exponent numbers excluded by the statement; encoding/json is the reference for what a JSON text denotes.")
prop("C14", "E-GEN",
     "bounded exhaustive enumeration of schema models x layout combinations; differential comparison with the canonical rendering",
     "Every model of the annotated-model family (17k models quick: every node kind, ordered rule selections from per-kind pools, notes, key shortcuts, 2 levels) is rendered under every layout that differs from the canonical one in <=2 of 6 presentation dimensions (thorough: all 575 combinations) and must give the same verdict and error code and, when accepted, byte-identical AST, example, used types and OpenAPI; the repository's own test schemas are re-checked under CRLF/CR/blank-line/line-end-padding transformations.",
     "The canonical rendering defines the meaning; messages and positions may differ between renderings.")

prop("C15", "E-GEN",
     "bounded exhaustive enumeration of schema texts x follow-up texts; Len() compared with itself on prefix and extension, verdict/AST compared on the prefix",
     "For every canonical rendering of the annotated-model family and every valid schema of the test corpus: Len<=|S|, S[:Len] has the same verdict and AST, Len is idempotent, and for accepted S Len(S + LF|CRLF + b + rest) = Len(S) for the non-blank first bytes b other than / and # (all 250 for every 16th model and the whole corpus, 28 byte classes otherwise; thorough: all 250 everywhere) x 11 rests.",
     "Follow-up text starts on a new line with a non-blank byte; texts for which Len() returns an error carry no claim.")

prop("C04", "E-GEN",
     "bounded exhaustive enumeration of schema models printed to text; AST compared with the tree derived from the printed model",
     "Every model of the annotated-model family (50k quick / 234k thorough: every node kind, ordered selections of <=3 (4) rules from per-kind pools incl. 19- and 20-digit integers, nested or / enum / allOf lists, notes, key shortcuts, 2 levels) under 3 annotation placements: GetAST() must have one node per element in source order with the element's JSON kind, key, shortcut flag, decoded value or reference text, trimmed note, and exactly the written rules in order with their kinds, values, items and properties.",
     "SchemaType and Source fields are not compared (not named by the statement); unsigned rule values compared numerically.")

prop("C01", "E-GEN",
     "bounded exhaustive enumeration of schema projects (typed value x rule template x boundary values x 8 positions) judged by a three-valued reference semantics",
     "Typed values (min/max/both x exclusivity over 21 boundary numbers squared incl. -0, trailing zeros, last-digit neighbours; precision; minLength/maxLength/ranges/regex; five string formats; explicit types x nullable; const; enum singletons and pairs; arrays x minItems/maxItems) are placed at the root, in a property, in an array, in a type used by @t shortcut, by type:\"@t\", by or:[\"@t\",\"@u\"], as an or rule-set and in a type of a type; Check() must accept exactly when the reference meaning of the rules holds for the example, with explicit no-claim regions.",
     "No claim where the statement does not settle the answer (null under nullable+type, integer literal vs float type, trailing zeros beyond precision, format strings outside clear-cut tables). ASCII strings only.")

prop("C06", "E-GEN",
     "bounded exhaustive enumeration of type-reference graphs, judged by a least-fixpoint reference (finite instance) and a reachability reference (root requires itself)",
     "All graphs over @main, @a, @b where each type is an object with 1-2 properties and each property is a scalar, a plain/optional/nullable/array link to one of the three types or a choice of two (650 root forms x 139 reduced forms squared quick; all 650^3 would be thorough-bounded by time), plus all chains @main -> t1 .. tk -> @main up to k=4 (thorough 6) with every mix of 6 link kinds: finite(root) => no recursion error; root reaching itself through plain links => error 104 whatever the length; every accepted schema's Example() returns RFC 8259 JSON.",
     "Roots infinite only through a cycle not containing the root carry no claim; three types / seven-link chains is the scope.")

prop("C07", "E-GEN",
     "bounded exhaustive enumeration of inheritance graphs judged by a reference merge",
     "2.6 M projects over @root, @a, @b, @c (objects with required/optional/nested own keys or non-objects; allOf = every ordered list of <=2 of the other types, itself and an unregistered name; additionalProperties absent/true/false/typed): Check() must refuse non-object, missing, cyclic, duplicate-key and conflicting-additionalProperties inheritance and otherwise Example() keys must be own-then-inherited in list order, the OpenAPI property listing the same set with optional marks, and every compiled child must be marked with the type it came from and keep its required/optional status.",
     "Any error counts as refusal; InheritedFrom may name the immediate or the declaring ancestor; true and \"any\" are equal.")

prop("C05", "E-GEN",
     "bounded exhaustive enumeration of schema projects x every registered/withheld subset of type definitions, judged by a reachability reference",
     "1130 roots with one or two reference sites from all 8 reference positions at the root, in a property or in an array item x all 16 subsets of 4 closed definitions (incl. chains object -> object -> string) x 0-2 unreferenced extra types: UsedUserTypes() must equal the names in the root text without duplicates and regardless of registration, Check() must report 1302 naming a missing type exactly when a name reachable through registered definitions is unregistered, and unreferenced valid types must change no observable.",
     "Excluded: registered but unreachable types that refer to unregistered types.")

prop("C08", "E-GEN",
     "bounded exhaustive enumeration of accepted schema projects; example validated against the generated OpenAPI schema by an independent Schema-Object validator",
     "Every accepted project with a root value from the families of C01 (typed values x 8 positions = value variations), C03 (plain JSON incl. escapes), C04 (annotated models), C05 (reference sites), C07 (allOf graphs) and key-shortcut x additionalProperties combinations (316k accepted projects quick): Example() succeeds and is RFC 8259; the conversion of the root and of every registered type succeeds and is JSON; each is a well-formed OpenAPI 3.0 Schema Object (keyword set, value types, resolvable $ref); the example is a valid instance with $ref resolved into the components map.",
     "Validator: JSON Schema draft-4 semantics + nullable, exact-decimal multipleOf, format as annotation; written for this check and cross-checked against python jsonschema in the thorough tier.")

prop("C09", "E-ENV",
     "deviation-bounded exhaustive exploration of map iteration orders at every range-over-map site (type-driven source rewriting through the build overlay) + all registration-order permutations + cross-process comparison",
     "In the instrumented build every `for ... range m` over a map (11 sites today, found by go/types at check time) asks the explorer for the order: for each of ~1000 cases (projects with several valid/broken types, format and banned-rule conflicts, enum rules, allOf graphs, a slice of the annotated family, enum/regex/JSON-document/GuessSchemaType inputs) every order (all n! up to n=4, pair-complete set above) at <=1 (thorough 2) deviating sites, every permutation of the AddType/AddRule calls, two runs with heap perturbation and one run in a separate uninstrumented process must give byte-identical observables; no observable may contain an address-like token.",
     "Heap addresses / 'every process' are a two-point comparison; map order and registration order are exhaustive within the deviation bound.")

prop("C10", "E-OPS x E-ENV",
     "exhaustive operation histories over several objects, each under every sync.Pool answer within a deviation bound with a scribbling pool model; retained results re-read after every step; references from brand-new processes",
     "All histories of length <=3 (thorough 4) over 40 symbols (6 operations x 5 schema projects incl. three that fail in the scanner, the rule loader and the checker; enum rule, regex, JSON document operations; repeated symbols act on the used object) are executed in the instrumented build where sync.Pool is a model pool: Get may answer with any pooled item or New() (<=1 deviation per history) and a buffer is overwritten when put back. After every step every value returned so far must equal its snapshot, and every result must equal the result of the same call made first in a brand-new process.",
     "Sequential histories only; the pool model is Go's documented contract (any item or New, next owner may overwrite).")
prop("C11", "E-SCHED",
     "stateless model checking under a cooperative scheduler: all interleavings of 2-3 goroutines at every sync operation up to a preemption bound x sync.Pool answers; separate free-running race-detector pass of the same bodies",
     "In the instrumented build every Mutex/RWMutex/Once/Pool operation of the repository is a scheduling point (before, and for pool operations also after); for 9 harnesses (own objects built from scratch; own compiled objects doing Example+OpenAPI; one shared schema with types under Check || Example || GetAST/Len/UsedUserTypes and OpenAPI || UsedUserTypes; shared enum rule; shared regex; VirtualNodeForAny; EnsureAdditionalProperties; StringSet) every schedule with <=2 preemptions is executed (110k executions quick), pool answers are explored as deviations, and each thread's result must equal its sequential result with no deadlock or panic. The same bodies run free under `go build -race` with real sync (16 goroutines x 150 iterations); any detector report is a violation.",
     "Exhaustive only at sync operations under sequential consistency; races between two sync operations are decided by the race detector on the interleavings that occur.")

ORDER = ["C%02d" % i for i in range(1, 21)]

def main():
    checks, na = [], []
    for pid in ORDER:
        if pid in P and P[pid]["claimed"]:
            p = P[pid]
            checks.append({
                "property_id": pid,
                "quick_cmd": f"/verif/run.sh {pid} quick",
                "thorough_cmd": f"/verif/run.sh {pid} thorough",
                "evidence_file": f"/verif/evidence/{pid}.json",
                "replay_cmd_template": "/verif/.build/mc replay {path}",
                "engine": p["engine"],
                "level_claimed": {"category": "model_checking", "text": p["text"], "design_ref": f"DESIGN.md section 5 {pid}"},
                "level_note": p["note"],
                "technique": p["technique"],
            })
        else:
            reason = P[pid]["reason"] if pid in P else "check not built yet (planned in DESIGN.md section 5; not claimed until it runs and has been shown to detect seeded defects)"
            na.append({"property_id": pid, "reason": reason})
    engines = [
        {"name": "E-SEQ", "path": "mc/seq", "kind_free_text": "bounded exhaustive enumeration of token strings with viable-prefix pruning, executed on the real code"},
        {"name": "E-STATE", "path": "mc/state", "kind_free_text": "explicit-state BFS over the real scanners' abstract control states (reflection probe added through the build overlay), bisimulation-audited"},
        {"name": "E-GEN", "path": "mc/gen", "kind_free_text": "bounded exhaustive enumeration of schema projects from a finite grammar, printed to text, judged by reference semantics"},
        {"name": "E-OPS", "path": "mc/props", "kind_free_text": "explicit-state search over operation histories against a reference model"},
        {"name": "E-ENV", "path": "mc/explore", "kind_free_text": "deviation-bounded DFS over environment answers (map iteration order, sync.Pool answers)"},
        {"name": "E-SCHED", "path": "mc/sched", "kind_free_text": "cooperative scheduler + preemption-bounded DFS over goroutine interleavings"},
    ]
    for e in engines:
        e["serves_properties"] = [c["property_id"] for c in checks if e["name"] in c["engine"]]
    m = {
        "version": 1,
        "setup_cmd": "/verif/run.sh build",
        "hooks": {
            "guard": "verif",
            "enable": "go build -tags verif -overlay /verif/.build/overlay.json (overlay generated at check time from /verif/hooks and the current /repo tree; no hook is committed to /repo)",
            "baseline_off_cmd": "cd /repo && GOFLAGS=-mod=mod GOPROXY=off GOSUMDB=off GOTOOLCHAIN=local go test -json -vet=off -count=1 -timeout 25m ./...",
            "source_commits": [],
            "add_only": True,
        },
        "engines": engines,
        "checks": checks,
        "not_applicable": na,
        "notes": "Every check rebuilds mc from /repo's working tree. Violations listed in known_findings.json print KNOWN-FINDING and do not fail the check. ENGINE-ERROR lines (exit 2) are machinery failures, never verdicts.",
    }
    json.dump(m, open("/verif/MANIFEST.json", "w"), indent=1)
    print("claimed:", [c["property_id"] for c in checks])

main()
