#!/bin/bash
# mutant.sh <Cxx> <patch> [tier] — confirm that a property-breaking patch (a) keeps the
# repository's own test baseline green and (b) is reported by the check.
# /repo is never modified: the tests run in a scratch worktree, the check through the overlay.
set -u
ID="$1"; PATCH="$(readlink -f "$2")"; TIER="${3:-quick}"
WT=$(mktemp -d /tmp/mutwt.XXXXXX)
git -C /repo worktree add -q --detach "$WT" HEAD || exit 2
if ! git -C "$WT" apply "$PATCH"; then echo "PATCH-DOES-NOT-APPLY"; git -C /repo worktree remove --force "$WT"; exit 2; fi
/verif/tools/baseline_check.py "$WT" > "$WT.tests" 2>&1; T=$?
tail -3 "$WT.tests"; rm -f "$WT.tests"
git -C /repo worktree remove --force "$WT"; rm -rf "$WT"
if [ $T -ne 0 ]; then echo "RESULT tests=FAIL (not a valid mutant)"; exit 3; fi
VERIF_MUT="$PATCH" /verif/run.sh "$ID" "$TIER" > /tmp/mut.$$.out 2>&1; R=$?
grep -m3 "^  \[" /tmp/mut.$$.out | cut -c1-300
grep -c "^VIOLATION" /tmp/mut.$$.out | sed 's/^/violation lines: /'
rm -f /tmp/mut.$$.out
if [ $R -eq 1 ]; then echo "RESULT tests=pass check=DETECTED"; exit 0; fi
echo "RESULT tests=pass check=MISSED (exit $R)"; exit 1
