#!/usr/bin/env python3
"""baseline_check.py [repo_dir] [extra go test flags...] — run the repository's test suite
(guard off, no overlay unless flags say so) and compare with BASELINE.json's stable_pass list.
Exit 0 iff every stable_pass test passed."""
import json, os, subprocess, sys
repo = sys.argv[1] if len(sys.argv) > 1 else "/repo"
extra = sys.argv[2:]
env = dict(os.environ, GOFLAGS="-mod=mod", GOPROXY="off", GOSUMDB="off", GOTOOLCHAIN="local")
base = json.load(open("/root/.vp/BASELINE.json"))
stable = set(base["stable_pass"])
p = subprocess.run(["go", "test", "-json", "-vet=off", "-count=1", "-timeout", "25m"] + extra + ["./..."],
                   cwd=repo, env=env, capture_output=True, text=True)
passed = set()
failed = set()
for line in p.stdout.splitlines():
    try:
        ev = json.loads(line)
    except Exception:
        continue
    t = ev.get("Test")
    if not t:
        continue
    name = ev["Package"] + "::" + t
    if ev.get("Action") == "pass":
        passed.add(name)
    elif ev.get("Action") == "fail":
        failed.add(name)
missing = sorted(stable - passed)
print(f"stable_pass={len(stable)} passed_now={len(passed)} missing={len(missing)} failed_now={len(failed)}")
for m in missing[:40]:
    print("  NOT PASSING:", m)
if not passed:
    print(p.stdout[-3000:]); print(p.stderr[-3000:])
sys.exit(1 if missing else 0)
