#!/usr/bin/env python3
"""Regenerates /verif/seeded/RESULTS.md from the meta.json files of the seeded changes."""
import json, glob, os
rows = []
for p in sorted(glob.glob('/verif/seeded/*/meta.json')):
    m = json.load(open(p))
    c = m.get('confirmed', {})
    rows.append((m['seed'], m.get('change', ''), m.get('needs_to_manifest', ''), c.get('repository_baseline_passes_with_change', '?'),
                 f"{c.get('demo_with_change','?')}/{c.get('demo_without_change','?')}", m.get('checks_run', '') + ' — ' + m.get('detection', '')))
head = """# Seeded changes (independent sub-agents)

Each sub-agent received only the text of one property (second and third batch: plus a one-line hint which clause to aim at or which kinds of change were already taken) and a scratch worktree of /repo. `tools/seedcheck.sh` confirmed every change (applies, builds, the 6123 baseline tests still pass, the demo fails with it and passes without) and ran the checks against it through the build overlay (`/repo` untouched). `checks` shows the final state; the text after the dash says whether the check caught it at first run or had to be strengthened. Regenerate with `tools/seedresults.py`.

| seed | change | needs | baseline | demo (with/without) | checks |
|---|---|---|---|---|---|
"""
esc = lambda s: str(s).replace('|', '\\|').replace('\n', ' ')
with open('/verif/seeded/RESULTS.md', 'w') as f:
    f.write(head)
    for r in rows:
        f.write('| ' + ' | '.join(esc(x) for x in r) + ' |\n')
    missed = sum(1 for r in rows if 'MISSED' in r[5])
    f.write(f"\n{len(rows)} seeded changes; {len(rows)-missed} detected at first run, {missed} missed at first run and detected after the strengthening named in the row.\n")
print(len(rows), "rows")
