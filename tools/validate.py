#!/opt/veriftools/pyvenv/bin/python3
"""Validates MANIFEST.json and every evidence/<id>.json against the task's schemas."""
import json, glob, sys, jsonschema
bad = 0
ev = json.load(open('/root/.vp/EVIDENCE.schema.json'))
for f in sorted(glob.glob('/verif/evidence/C*.json')):
    try:
        jsonschema.validate(json.load(open(f)), ev)
    except Exception as e:
        print(f, str(e)[:300]); bad += 1
try:
    jsonschema.validate(json.load(open('/verif/MANIFEST.json')), json.load(open('/root/.vp/MANIFEST.schema.json')))
except Exception as e:
    print('MANIFEST.json', str(e)[:300]); bad += 1
print('schema violations:', bad)
sys.exit(1 if bad else 0)
