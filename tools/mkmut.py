#!/usr/bin/env python3
"""mkmut.py <name> <file> <old> <new> [<file> <old> <new> ...] — build /verif/mutations/<name>.patch from
textual replacements applied in a scratch worktree of /repo (never in /repo itself)."""
import subprocess, sys, tempfile, os
name = sys.argv[1]
wt = tempfile.mkdtemp(prefix="mkmut.")
subprocess.check_call(["git", "-C", "/repo", "worktree", "add", "-q", "--detach", wt, "HEAD"])
try:
    args = sys.argv[2:]
    for i in range(0, len(args), 3):
        f, old, new = args[i], args[i+1], args[i+2]
        p = os.path.join(wt, f)
        s = open(p).read()
        if s.count(old) != 1:
            print("pattern count", s.count(old), "in", f, repr(old)); sys.exit(1)
        open(p, "w").write(s.replace(old, new))
    diff = subprocess.check_output(["git", "-C", wt, "diff"]).decode()
    open(f"/verif/mutations/{name}.patch", "w").write(diff)
    print("wrote", name, len(diff.splitlines()), "lines")
finally:
    subprocess.call(["git", "-C", "/repo", "worktree", "remove", "--force", wt])
