//go:build verif

// Package vprobe builds a canonical key of a scanner's control state by reflection:
// every field except the input and the cursor is included, so a field added later
// is part of the key automatically. Function values are named with
// runtime.FuncForPC; closures are unwrapped to name(captured function).
package vprobe

import (
	"fmt"
	"reflect"
	"runtime"
	"sort"
	"strings"
	"unsafe"
)

// skipped types: the input text, the cursor and lexeme spans (outputs, not state)
func skipType(t reflect.Type) bool {
	switch t.String() {
	case "*fs.File", "bytes.Bytes", "bytes.Index", "[]uint8":
		return true
	}
	return false
}

// Key returns the canonical state key of *ptr (a pointer to a scanner struct).
// skipFields names fields excluded in addition to the type-based rule (cursor-like
// counters that are outputs).
func Key(ptr any, skipFields ...string) string {
	var b strings.Builder
	v := reflect.ValueOf(ptr).Elem()
	skip := map[string]bool{}
	for _, f := range skipFields {
		skip[f] = true
	}
	write(&b, v, skip, 0)
	return b.String()
}

func funcName(v reflect.Value, depth int) string {
	if v.IsNil() {
		return "nil"
	}
	n := runtime.FuncForPC(v.Pointer()).Name()
	n = n[strings.LastIndex(n, "/")+1:]
	if strings.Contains(n, ".func") && v.CanAddr() && depth < 4 {
		// closure: funcval = {code, captured...}; the scanners' wrapper closures
		// capture exactly one step function.
		fv := *(*unsafe.Pointer)(unsafe.Pointer(v.UnsafeAddr()))
		inner := (*[2]unsafe.Pointer)(fv)[1]
		if inner != nil {
			nv := reflect.New(v.Type()).Elem()
			*(*unsafe.Pointer)(unsafe.Pointer(nv.UnsafeAddr())) = inner
			ok := false
			var in string
			func() {
				defer func() { recover() }()
				pc := nv.Pointer()
				if f := runtime.FuncForPC(pc); f != nil && strings.Contains(f.Name(), "jsight-schema-core") {
					in = funcName(nv, depth+1)
					ok = true
				}
			}()
			if ok {
				return n + "(" + in + ")"
			}
		}
	}
	return n
}

func write(b *strings.Builder, v reflect.Value, skip map[string]bool, depth int) {
	if skipType(v.Type()) {
		return
	}
	switch v.Kind() {
	case reflect.Func:
		b.WriteString(funcName(v, 0))
	case reflect.Ptr:
		if v.IsNil() {
			b.WriteString("nil")
			return
		}
		write(b, v.Elem(), skip, depth+1)
	case reflect.Struct:
		b.WriteByte('{')
		t := v.Type()
		for i := 0; i < v.NumField(); i++ {
			f := t.Field(i)
			if skip[f.Name] && depth == 0 || skipType(f.Type) {
				continue
			}
			b.WriteString(f.Name[:1])
			b.WriteString(f.Name[len(f.Name)-1:])
			b.WriteByte(':')
			write(b, v.Field(i), skip, depth+1)
			b.WriteByte(' ')
		}
		b.WriteByte('}')
	case reflect.Slice, reflect.Array:
		b.WriteByte('[')
		for i := 0; i < v.Len(); i++ {
			write(b, v.Index(i), skip, depth+1)
			b.WriteByte(',')
		}
		b.WriteByte(']')
	case reflect.Bool:
		if v.Bool() {
			b.WriteByte('T')
		} else {
			b.WriteByte('F')
		}
	case reflect.Int, reflect.Int8, reflect.Int16, reflect.Int32, reflect.Int64:
		fmt.Fprintf(b, "%d", v.Int())
	case reflect.Uint, reflect.Uint8, reflect.Uint16, reflect.Uint32, reflect.Uint64, reflect.Uintptr:
		fmt.Fprintf(b, "%d", v.Uint())
	case reflect.String:
		fmt.Fprintf(b, "%q", v.String())
	case reflect.Map:
		// content matters (e.g. the enum scanner's set of values seen so far)
		var ks []string
		it := v.MapRange()
		for it.Next() {
			var kb strings.Builder
			write(&kb, it.Key(), skip, depth+1)
			ks = append(ks, kb.String())
		}
		sort.Strings(ks)
		b.WriteString("map[" + strings.Join(ks, ";") + "]")
	case reflect.Interface:
		if v.IsNil() {
			b.WriteString("nil")
		} else {
			write(b, v.Elem(), skip, depth+1)
		}
	default:
		b.WriteString(v.Kind().String())
	}
}
