//go:build verif

// Package vatomic replaces "sync/atomic" inside the repository in the INSTRUMENTED build
// (mc-inst): a file that imports "sync/atomic" is rewritten by the overlay to import this
// package instead. Every operation is the real atomic operation preceded by a scheduling
// point (vsync.Yield), so that code which shares state through atomics - a lock-free slot,
// a flag, a counter - is interleaved at exactly those operations, like Mutex, Once, Pool
// and Map operations are.
package vatomic

import (
	real "sync/atomic"

	"github.com/jsightapi/jsight-schema-core/verifshim/vsync"
)

func yield(what string) {
	vsync.Ops++
	if vsync.Yield != nil {
		vsync.Yield(what)
	}
}

// ---------------------------------------------------------------- typed values

type Pointer[T any] struct{ v real.Pointer[T] }

func (p *Pointer[T]) Load() *T     { yield("atomic.Pointer.Load"); return p.v.Load() }
func (p *Pointer[T]) Store(x *T)   { yield("atomic.Pointer.Store"); p.v.Store(x) }
func (p *Pointer[T]) Swap(x *T) *T { yield("atomic.Pointer.Swap"); return p.v.Swap(x) }
func (p *Pointer[T]) CompareAndSwap(old, new *T) bool {
	yield("atomic.Pointer.CompareAndSwap")
	return p.v.CompareAndSwap(old, new)
}

type Bool struct{ v real.Bool }

func (b *Bool) Load() bool       { yield("atomic.Bool.Load"); return b.v.Load() }
func (b *Bool) Store(x bool)     { yield("atomic.Bool.Store"); b.v.Store(x) }
func (b *Bool) Swap(x bool) bool { yield("atomic.Bool.Swap"); return b.v.Swap(x) }
func (b *Bool) CompareAndSwap(old, new bool) bool {
	yield("atomic.Bool.CompareAndSwap")
	return b.v.CompareAndSwap(old, new)
}

type Int32 struct{ v real.Int32 }

func (i *Int32) Load() int32        { yield("atomic.Int32.Load"); return i.v.Load() }
func (i *Int32) Store(x int32)      { yield("atomic.Int32.Store"); i.v.Store(x) }
func (i *Int32) Swap(x int32) int32 { yield("atomic.Int32.Swap"); return i.v.Swap(x) }
func (i *Int32) Add(d int32) int32  { yield("atomic.Int32.Add"); return i.v.Add(d) }
func (i *Int32) CompareAndSwap(old, new int32) bool {
	yield("atomic.Int32.CompareAndSwap")
	return i.v.CompareAndSwap(old, new)
}

type Int64 struct{ v real.Int64 }

func (i *Int64) Load() int64        { yield("atomic.Int64.Load"); return i.v.Load() }
func (i *Int64) Store(x int64)      { yield("atomic.Int64.Store"); i.v.Store(x) }
func (i *Int64) Swap(x int64) int64 { yield("atomic.Int64.Swap"); return i.v.Swap(x) }
func (i *Int64) Add(d int64) int64  { yield("atomic.Int64.Add"); return i.v.Add(d) }
func (i *Int64) CompareAndSwap(old, new int64) bool {
	yield("atomic.Int64.CompareAndSwap")
	return i.v.CompareAndSwap(old, new)
}

type Uint32 struct{ v real.Uint32 }

func (i *Uint32) Load() uint32         { yield("atomic.Uint32.Load"); return i.v.Load() }
func (i *Uint32) Store(x uint32)       { yield("atomic.Uint32.Store"); i.v.Store(x) }
func (i *Uint32) Swap(x uint32) uint32 { yield("atomic.Uint32.Swap"); return i.v.Swap(x) }
func (i *Uint32) Add(d uint32) uint32  { yield("atomic.Uint32.Add"); return i.v.Add(d) }
func (i *Uint32) CompareAndSwap(old, new uint32) bool {
	yield("atomic.Uint32.CompareAndSwap")
	return i.v.CompareAndSwap(old, new)
}

type Uint64 struct{ v real.Uint64 }

func (i *Uint64) Load() uint64         { yield("atomic.Uint64.Load"); return i.v.Load() }
func (i *Uint64) Store(x uint64)       { yield("atomic.Uint64.Store"); i.v.Store(x) }
func (i *Uint64) Swap(x uint64) uint64 { yield("atomic.Uint64.Swap"); return i.v.Swap(x) }
func (i *Uint64) Add(d uint64) uint64  { yield("atomic.Uint64.Add"); return i.v.Add(d) }
func (i *Uint64) CompareAndSwap(old, new uint64) bool {
	yield("atomic.Uint64.CompareAndSwap")
	return i.v.CompareAndSwap(old, new)
}

type Value struct{ v real.Value }

func (v *Value) Load() any      { yield("atomic.Value.Load"); return v.v.Load() }
func (v *Value) Store(x any)    { yield("atomic.Value.Store"); v.v.Store(x) }
func (v *Value) Swap(x any) any { yield("atomic.Value.Swap"); return v.v.Swap(x) }
func (v *Value) CompareAndSwap(old, new any) bool {
	yield("atomic.Value.CompareAndSwap")
	return v.v.CompareAndSwap(old, new)
}

// ---------------------------------------------------------------- function forms

func LoadInt32(p *int32) int32          { yield("atomic.LoadInt32"); return real.LoadInt32(p) }
func StoreInt32(p *int32, x int32)      { yield("atomic.StoreInt32"); real.StoreInt32(p, x) }
func AddInt32(p *int32, d int32) int32  { yield("atomic.AddInt32"); return real.AddInt32(p, d) }
func SwapInt32(p *int32, x int32) int32 { yield("atomic.SwapInt32"); return real.SwapInt32(p, x) }
func CompareAndSwapInt32(p *int32, old, new int32) bool {
	yield("atomic.CompareAndSwapInt32")
	return real.CompareAndSwapInt32(p, old, new)
}
func LoadInt64(p *int64) int64          { yield("atomic.LoadInt64"); return real.LoadInt64(p) }
func StoreInt64(p *int64, x int64)      { yield("atomic.StoreInt64"); real.StoreInt64(p, x) }
func AddInt64(p *int64, d int64) int64  { yield("atomic.AddInt64"); return real.AddInt64(p, d) }
func SwapInt64(p *int64, x int64) int64 { yield("atomic.SwapInt64"); return real.SwapInt64(p, x) }
func CompareAndSwapInt64(p *int64, old, new int64) bool {
	yield("atomic.CompareAndSwapInt64")
	return real.CompareAndSwapInt64(p, old, new)
}
func LoadUint32(p *uint32) uint32           { yield("atomic.LoadUint32"); return real.LoadUint32(p) }
func StoreUint32(p *uint32, x uint32)       { yield("atomic.StoreUint32"); real.StoreUint32(p, x) }
func AddUint32(p *uint32, d uint32) uint32  { yield("atomic.AddUint32"); return real.AddUint32(p, d) }
func SwapUint32(p *uint32, x uint32) uint32 { yield("atomic.SwapUint32"); return real.SwapUint32(p, x) }
func CompareAndSwapUint32(p *uint32, old, new uint32) bool {
	yield("atomic.CompareAndSwapUint32")
	return real.CompareAndSwapUint32(p, old, new)
}
func LoadUint64(p *uint64) uint64           { yield("atomic.LoadUint64"); return real.LoadUint64(p) }
func StoreUint64(p *uint64, x uint64)       { yield("atomic.StoreUint64"); real.StoreUint64(p, x) }
func AddUint64(p *uint64, d uint64) uint64  { yield("atomic.AddUint64"); return real.AddUint64(p, d) }
func SwapUint64(p *uint64, x uint64) uint64 { yield("atomic.SwapUint64"); return real.SwapUint64(p, x) }
func CompareAndSwapUint64(p *uint64, old, new uint64) bool {
	yield("atomic.CompareAndSwapUint64")
	return real.CompareAndSwapUint64(p, old, new)
}
