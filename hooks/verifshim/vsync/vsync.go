//go:build verif

// Package vsync replaces "sync" inside the repository in the INSTRUMENTED build
// (mc-inst): every file of the repository that imports "sync" is rewritten by the
// overlay to import this package instead. With no controller installed the types
// behave like deterministic single-threaded versions of the originals; the harness
// installs a Controller to turn every operation into a scheduling / choice point.
package vsync

import (
	"bytes"
	realsync "sync"
)

// Controller receives every synchronisation operation of the code under test.
type Controller interface {
	Lock(m *Mutex)
	Unlock(m *Mutex)
	RWLock(m *RWMutex)
	RWUnlock(m *RWMutex)
	RLock(m *RWMutex)
	RUnlock(m *RWMutex)
	OnceDo(o *Once, f func())
	PoolGet(p *Pool) any
	PoolPut(p *Pool, x any)
}

// C is the installed controller (nil = default behaviour).
var C Controller

// Ops counts operations (used to size harnesses).
var Ops int64

// ---------------------------------------------------------------- Mutex

type Mutex struct {
	real   realsync.Mutex
	Holder int // 0 = free, else thread id + 1 (maintained by the controller)
}

func (m *Mutex) Lock() {
	Ops++
	if C != nil {
		C.Lock(m)
		return
	}
	m.real.Lock()
}

func (m *Mutex) Unlock() {
	Ops++
	if C != nil {
		C.Unlock(m)
		return
	}
	m.real.Unlock()
}

// ---------------------------------------------------------------- RWMutex

type RWMutex struct {
	real    realsync.RWMutex
	Writer  int         // 0 = none, else thread id + 1
	Readers map[int]int // thread id -> recursive read count
}

func (m *RWMutex) Lock() {
	Ops++
	if C != nil {
		C.RWLock(m)
		return
	}
	m.real.Lock()
}
func (m *RWMutex) Unlock() {
	Ops++
	if C != nil {
		C.RWUnlock(m)
		return
	}
	m.real.Unlock()
}
func (m *RWMutex) RLock() {
	Ops++
	if C != nil {
		C.RLock(m)
		return
	}
	m.real.RLock()
}
func (m *RWMutex) RUnlock() {
	Ops++
	if C != nil {
		C.RUnlock(m)
		return
	}
	m.real.RUnlock()
}

// ---------------------------------------------------------------- Once

type Once struct {
	real    realsync.Once
	Done    bool
	Running int // thread id + 1 of the goroutine executing f, 0 = none
}

func (o *Once) Do(f func()) {
	Ops++
	if C != nil {
		C.OnceDo(o, f)
		return
	}
	o.real.Do(func() {
		f()
		o.Done = true
	})
}

// ---------------------------------------------------------------- Pool

// Pool is a deterministic pool: with no controller Get returns the most recently
// put item (or New()). Scribble: a *bytes.Buffer that is put back is overwritten
// over its whole capacity — exactly what its next owner is entitled to do — so
// that any use of memory after Put becomes visible deterministically.
type Pool struct {
	New        func() any
	Items      []any
	registered bool
}

// Pools lists every pool that has been used (so that a harness can reset them).
var Pools []*Pool

func (p *Pool) register() {
	if !p.registered {
		p.registered = true
		Pools = append(Pools, p)
	}
}

// ResetPools empties every pool (start of an execution).
func ResetPools() {
	for _, p := range Pools {
		p.Items = nil
	}
}

var Scribble bool

// PoolChoice, when set, picks the item Get hands out: it receives the number of
// pooled items n and returns an index in [0,n] (n = call New). Index n-1 is the
// default (most recently put).
var PoolChoice func(p *Pool, n int) int

func ScribbleBuffer(x any) {
	if b, ok := x.(*bytes.Buffer); ok && Scribble {
		c := b.Cap()
		raw := b.Bytes()[:0]
		raw = raw[:c]
		for i := range raw {
			raw[i] = 0xEE
		}
	}
}

func (p *Pool) DefaultGet(idx int) any {
	n := len(p.Items)
	if idx >= n || n == 0 {
		if p.New == nil {
			return nil
		}
		return p.New()
	}
	x := p.Items[idx]
	p.Items = append(p.Items[:idx], p.Items[idx+1:]...)
	return x
}

func (p *Pool) Get() any {
	Ops++
	p.register()
	if C != nil {
		return C.PoolGet(p)
	}
	idx := len(p.Items) - 1
	if PoolChoice != nil && len(p.Items) > 0 {
		idx = PoolChoice(p, len(p.Items))
	}
	return p.DefaultGet(idx)
}

func (p *Pool) Put(x any) {
	Ops++
	p.register()
	if C != nil {
		C.PoolPut(p, x)
		return
	}
	ScribbleBuffer(x)
	p.Items = append(p.Items, x)
}

// ---------------------------------------------------------------- Map

// Yield, when set by the scheduler, makes an operation that is atomic in itself
// (a sync.Map access) a scheduling point.
var Yield func(what string)

func yield(what string) {
	Ops++
	if Yield != nil {
		Yield(what)
	}
}

// Map is sync.Map with a scheduling point before every operation, so that code
// which starts to share state through a sync.Map is explored like the rest.
type Map struct {
	real realsync.Map
}

func (m *Map) Load(key any) (any, bool)    { yield("Map.Load"); return m.real.Load(key) }
func (m *Map) Store(key, value any)        { yield("Map.Store"); m.real.Store(key, value) }
func (m *Map) Delete(key any)              { yield("Map.Delete"); m.real.Delete(key) }
func (m *Map) Range(f func(k, v any) bool) { yield("Map.Range"); m.real.Range(f) }
func (m *Map) LoadAndDelete(key any) (any, bool) {
	yield("Map.LoadAndDelete")
	return m.real.LoadAndDelete(key)
}
func (m *Map) LoadOrStore(key, value any) (any, bool) {
	yield("Map.LoadOrStore")
	return m.real.LoadOrStore(key, value)
}
