//go:build verif

package json

import (
	"github.com/jsightapi/jsight-schema-core/verifshim/vprobe"
)

// VerifNumberKeyAfter feeds data to a fresh number recogniser and returns the
// canonical key of its control state (counters are outputs and are left out; only
// "an exponent has begun" is kept).
func VerifNumberKeyAfter(data []byte) (key string, depth int, dead bool) {
	s := newScanner()
	for i, c := range data {
		s.index = i
		s.finished = true
		if !s.stateFn(c) {
			return "", 0, true
		}
	}
	k := vprobe.Key(s, "index", "intLen", "fraLen", "expBegin")
	if s.expBegin != 0 {
		k += "+exp"
	}
	return k, 0, false
}
