//go:build verif

package scanner

import (
	"github.com/jsightapi/jsight-schema-core/fs"
	"github.com/jsightapi/jsight-schema-core/verifshim/vprobe"
)

// VerifKeyAfter feeds data to a fresh scanner (no end-of-input handling) and
// returns the canonical key of the control state reached, the number of open
// lexemes, and whether the scanner refused the prefix.
func VerifKeyAfter(data []byte, lengthMode bool) (key string, depth int, dead bool) {
	var s *Scanner
	if lengthMode {
		s = New(fs.NewFile("", data), ComputeLength)
	} else {
		s = New(fs.NewFile("", data))
	}
	defer func() {
		if r := recover(); r != nil {
			dead = true
		}
	}()
	for s.index < s.dataSize {
		c := s.data.Byte(s.index)
		s.index++
		s.step(s, c)
		for len(s.finds) != 0 {
			s.processingFoundLexeme(s.shiftFound())
		}
	}
	return vprobe.Key(s), s.stack.Len(), false
}
