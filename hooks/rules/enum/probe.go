//go:build verif

package enum

import (
	"github.com/jsightapi/jsight-schema-core/fs"
	"github.com/jsightapi/jsight-schema-core/lexeme"
	"github.com/jsightapi/jsight-schema-core/verifshim/vprobe"
)

// VerifKeyAfter: canonical control-state key of the enum scanner after data
// (no end-of-input handling); depth = open lexemes + distinct values seen.
func VerifKeyAfter(data []byte, lengthMode bool) (key string, depth int, dead bool) {
	var s *scanner
	if lengthMode {
		s = newScanner(fs.NewFile("", data), scannerComputeLength)
	} else {
		s = newScanner(fs.NewFile("", data))
	}
	defer func() {
		if r := recover(); r != nil {
			dead = true
		}
	}()
	for s.index < s.dataSize {
		c := s.data.Byte(s.index)
		s.index++
		if _, err := s.step(c); err != nil {
			return "", 0, true
		}
		for len(s.finds) != 0 {
			lex, err := s.shiftFound()
			if err != nil {
				return "", 0, true
			}
			if _, err := s.processingFoundLexeme(lex); err != nil {
				return "", 0, true
			}
		}
	}
	// The text of the literal being read is part of the state: it is compared with
	// the values seen so far when the literal ends.
	pending := ""
	for i := s.stack.Len() - 1; i >= 0; i-- {
		if l := s.stack.Get(i); l.Type() == lexeme.LiteralBegin {
			pending = string(data[l.Begin():s.index])
			break
		}
	}
	return vprobe.Key(s) + "|lit=" + pending, s.stack.Len() + len(s.uniqueValues) + len(pending), false
}
