package props

import (
	stdjson "encoding/json"
	"fmt"
	"os"
	"os/exec"
	"strings"

	"github.com/jsightapi/jsight-schema-core/openapi"

	"verifmc/core"
	"verifmc/gen"
	"verifmc/ref"
)

// C08 — an accepted schema's example validates against its generated OpenAPI schema.

func c08Features(p *project) string {
	var f []string
	all := p.Root
	for _, t := range p.Types {
		all += "\n" + t
	}
	for _, k := range []string{"allOf", "additionalProperties", "enum", "or:", "nullable", "precision", "type: \"any\"", "const", "regex", " | "} {
		if strings.Contains(all, k) {
			f = append(f, strings.Trim(k, ": \""))
		}
	}
	if strings.Contains(p.Root, "\t@") || strings.Contains(p.Root, "{@") {
		f = append(f, "key-shortcut")
	}
	return strings.Join(f, ",")
}

// c08Case runs the clauses on one project; it returns false when the project is not
// in the property's domain (rejected, or no root value).
const c08Description = "set by the caller:  two\n lines\t\"quoted\""
const c08DescriptionNormal = "set by the caller: two lines \"quoted\""

func c08Case(w *core.W, p *project, family string) bool {
	w.S.Evaluations++
	wit, _ := stdjson.Marshal(p)
	in := p.describe()
	fail := func(clause, detail string, sig map[string]string) {
		if sig == nil {
			sig = map[string]string{}
		}
		sig["features"] = c08Features(p)
		w.Violate(core.Violation{Clause: clause, Entry: family, Input: in, Witness: wit, Detail: detail, Sig: sig})
	}
	var err, exErr, oasErr error
	var ex, oas []byte
	comps := map[string][]byte{}
	var compErr, infoErr string
	var oasD []byte
	var oasDErr error
	hasRoot := false
	rec, site := guard(func() {
		root, berr := buildProject(p)
		if berr != nil {
			err = berr
			return
		}
		if err = root.Check(); err != nil {
			return
		}
		a, _ := root.GetAST()
		hasRoot = a.TokenType != ""
		if !hasRoot {
			return
		}
		ex, exErr = root.Example()
		oas, oasErr = openapi.NewSchemaObject(root).MarshalJSON()
		for name, t := range root.UserTypeCollection {
			b, e := openapi.NewSchemaObject(t).MarshalJSON()
			if e != nil {
				compErr = name + ": " + errStr(e)
				return
			}
			comps[strings.TrimLeft(name, "@")] = b
		}
		// the dereferenced view of the same schema (what an API document builds its
		// parameter lists from): every informer answers, and renders to JSON
		var walk func(inf openapi.SchemaInformer, depth int)
		walk = func(inf openapi.SchemaInformer, depth int) {
			_ = inf.Type()
			_ = inf.Annotation()
			b, e := inf.SchemaObject().MarshalJSON()
			if e != nil || !stdjson.Valid(b) {
				infoErr = fmt.Sprintf("informer at depth %d renders %s (err=%v)", depth, trunc(string(b), 80), e)
				return
			}
			if oi, ok := inf.(openapi.ObjectInformer); ok && depth < 3 {
				for _, pi := range oi.PropertiesInfos() {
					_ = pi.Key()
					_ = pi.Optional()
					walk(pi, depth+1)
				}
			}
		}
		for _, inf := range openapi.Dereference(root) {
			walk(inf, 0)
		}
		// a description given by the caller replaces the root's own note and nothing else
		od := openapi.NewSchemaObject(root)
		od.SetDescription(c08Description)
		oasD, oasDErr = od.MarshalJSON()
	})
	if err != nil || (rec == nil && !hasRoot) {
		w.Class("out-of-domain")
		return false
	}
	w.S.Traces++
	w.S.Nontrivial++
	w.S.Transitions += 3
	if rec != nil {
		fail("conversion-succeeds", fmt.Sprintf("panic: %v", rec), map[string]string{"site": site})
		return true
	}
	if exErr != nil {
		fail("example-succeeds", "Example() failed: "+errStr(exErr), map[string]string{"code": fmt.Sprint(errCode(exErr))})
		return true
	}
	inst, derr := ref.DecodeAny(ex)
	if derr != nil {
		fail("example-is-json", fmt.Sprintf("Example() = %s is not JSON: %v", trunc(string(ex), 100), derr), nil)
		return true
	}
	if oasErr != nil || compErr != "" {
		fail("conversion-succeeds", fmt.Sprintf("OpenAPI conversion failed: %v %s", oasErr, compErr), nil)
		return true
	}
	if infoErr != "" {
		fail("conversion-succeeds", "Dereference: "+infoErr, map[string]string{"via": "dereference"})
		return true
	}
	sch, serr := ref.DecodeAny(oas)
	if serr != nil {
		fail("openapi-is-json", fmt.Sprintf("OpenAPI text %s is not JSON: %v", trunc(string(oas), 100), serr), nil)
		return true
	}
	if schD, derr := ref.DecodeAny(oasD); oasDErr != nil || derr != nil {
		fail("conversion-succeeds", fmt.Sprintf("with SetDescription: %s err=%v %v", trunc(string(oasD), 100), oasDErr, derr), map[string]string{"via": "description"})
		return true
	} else if m, ok := schD.(map[string]any); !ok || m["description"] != c08DescriptionNormal {
		fail("description-set", fmt.Sprintf("SetDescription(%q): converted schema %s", c08Description, trunc(string(oasD), 160)), nil)
		return true
	} else if m0, ok := sch.(map[string]any); ok {
		delete(m, "description")
		// a reference with a description is wrapped as {allOf: [{$ref}], description}
		// ($ref admits no siblings in OpenAPI 3.0): the same schema
		unwrap := func(x map[string]any) map[string]any {
			if l, ok := x["allOf"].([]any); ok && len(x) == 1 && len(l) == 1 {
				if inner, ok := l[0].(map[string]any); ok && inner["$ref"] != nil {
					return inner
				}
			}
			return x
		}
		a, _ := stdjson.Marshal(unwrap(m))
		d0 := m0["description"]
		delete(m0, "description")
		b, _ := stdjson.Marshal(unwrap(m0))
		if d0 != nil {
			m0["description"] = d0
		}
		if string(a) != string(b) {
			fail("description-set", fmt.Sprintf("SetDescription changed more than the description: %s vs %s", trunc(string(a), 120), trunc(string(b), 120)), nil)
			return true
		}
	}
	o := &ref.OAS{Components: map[string]any{}}
	for n, b := range comps {
		c, cerr := ref.DecodeAny(b)
		if cerr != nil {
			fail("openapi-is-json", fmt.Sprintf("component %s: %s is not JSON", n, trunc(string(b), 100)), nil)
			return true
		}
		o.Components[n] = c
	}
	if werr := o.WellFormed(sch, "#"); werr != nil {
		fail("schema-object-well-formed", fmt.Sprintf("%v in %s", werr, trunc(string(oas), 160)), map[string]string{"what": firstWord(werr.Error())})
		return true
	}
	for n, c := range o.Components {
		if werr := o.WellFormed(c, "#/components/schemas/"+n); werr != nil {
			fail("schema-object-well-formed", fmt.Sprintf("%v", werr), map[string]string{"what": firstWord(werr.Error())})
			return true
		}
	}
	verr0 := o.Validate(sch, inst, 0)
	c08Record(w, oas, comps, ex, verr0 == nil)
	c08Last = &c08Art{p: p, o: o, sch: sch, inst: inst, ex: ex, oas: oas}
	if verr := verr0; verr != nil {
		fail("example-validates", fmt.Sprintf("example %s is not an instance of %s: %v", trunc(string(ex), 80), trunc(string(oas), 200), verr), map[string]string{"keyword": lastKeyword(verr.Error())})
	}
	w.Class("validated")
	return true
}

// c08Art: what the last validated case produced (kept for the variation clause).
type c08Art struct {
	p    *project
	o    *ref.OAS
	sch  any
	inst any
	ex   []byte
	oas  []byte
}

var c08Last *c08Art

// c08Variations: the projects of one group differ in one scalar only and each of them is
// accepted, so the scalar of one is a variation the rules of every other still accept: its
// example must be an instance of the other's Schema Object too.
func c08Variations(w *core.W, arts []*c08Art, lits []string, explicit bool, pos string) {
	for i, a := range arts {
		for j, b := range arts {
			if i == j || string(a.ex) == string(b.ex) {
				continue
			}
			// without an explicit type the kind of the example is the type: a value of
			// another kind is not a variation the rules accept, it is another schema
			if !explicit && litKind(lits[i]) != litKind(lits[j]) {
				continue
			}
			w.S.Evaluations++
			w.S.Transitions++
			if verr := a.o.Validate(a.sch, b.inst, 0); verr != nil {
				wit, _ := stdjson.Marshal(a.p)
				w.Violate(core.Violation{Clause: "variation-validates", Entry: "typed-values", Input: a.p.describe(), Witness: wit,
					Detail: fmt.Sprintf("the schema also accepts %s (Check() passes with that value in place of the example), which is not an instance of %s: %v", trunc(string(b.ex), 80), trunc(string(a.oas), 200), verr),
					Sig:    map[string]string{"keyword": lastKeyword(verr.Error()), "pos": pos, "features": c08Features(a.p)}})
				return
			}
		}
	}
}

// distinct (schema, components, instance) triples, re-judged by python jsonschema in
// the thorough tier
type c08Pair struct {
	ID         string                        `json:"id"`
	Schema     stdjson.RawMessage            `json:"schema"`
	Components map[string]stdjson.RawMessage `json:"components"`
	Instance   stdjson.RawMessage            `json:"instance"`
	mine       bool
}

var c08Pairs = map[string]*c08Pair{}

func c08Record(w *core.W, oas []byte, comps map[string][]byte, ex []byte, valid bool) {
	if !w.Thorough() || len(c08Pairs) > 400000 {
		return
	}
	key := string(oas) + "\x00" + string(ex)
	for _, n := range sortedKeysB(comps) {
		key += "\x00" + n + "=" + string(comps[n])
	}
	id := core.HashOf(key)
	if _, ok := c08Pairs[id]; ok {
		return
	}
	cm := map[string]stdjson.RawMessage{}
	for n, b := range comps {
		cm[n] = b
	}
	c08Pairs[id] = &c08Pair{ID: id, Schema: oas, Components: cm, Instance: ex, mine: valid}
}

func sortedKeysB(m map[string][]byte) []string {
	var ks []string
	for k := range m {
		ks = append(ks, k)
	}
	sortStrings(ks)
	return ks
}

// c08CrossCheck runs the python judge over the recorded triples and compares verdicts.
func c08CrossCheck(w *core.W) {
	if !w.Thorough() || len(c08Pairs) == 0 {
		return
	}
	py, err := exec.LookPath("python3-vt")
	if err != nil {
		w.Note("python3-vt not found: cross-check with python jsonschema skipped")
		return
	}
	f, err := os.CreateTemp("", "c08pairs-*.jsonl")
	if err != nil {
		return
	}
	defer os.Remove(f.Name())
	enc := stdjson.NewEncoder(f)
	for _, p := range c08Pairs {
		enc.Encode(p)
	}
	f.Close()
	out, err := exec.Command(py, "/verif/tools/oas_judge.py", f.Name()).Output()
	if err != nil {
		w.Note("python judge failed: " + err.Error())
		return
	}
	agree, disagree := int64(0), int64(0)
	for _, line := range strings.Split(string(out), "\n") {
		parts := strings.SplitN(line, " ", 3)
		if len(parts) < 2 {
			continue
		}
		p := c08Pairs[parts[0]]
		if p == nil || parts[1] == "error" {
			continue
		}
		if (parts[1] == "valid") == p.mine {
			agree++
		} else {
			disagree++
			w.Violate(core.Violation{Clause: "ENGINE-validator-disagreement", Entry: "crosscheck", Input: trunc(string(p.Schema), 200) + "  instance " + trunc(string(p.Instance), 80),
				Detail: fmt.Sprintf("own validator: valid=%v, python jsonschema: %s", p.mine, strings.Join(parts[1:], " "))})
		}
	}
	w.Count("python_crosscheck.agree", agree)
	w.Count("python_crosscheck.disagree", disagree)
}

func firstWord(s string) string {
	if i := strings.Index(s, ": "); i >= 0 {
		s = s[i+2:]
	}
	f := strings.Fields(s)
	if len(f) > 2 {
		f = f[:2]
	}
	return strings.Join(f, " ")
}

// lastKeyword extracts the failing keyword from a validation error path.
func lastKeyword(s string) string {
	if i := strings.Index(s, ": "); i >= 0 {
		s = s[:i]
	}
	if j := strings.LastIndex(s, "."); j >= 0 {
		s = s[j+1:]
	}
	return s
}

func c08Run(w *core.W) {
	var i int64
	mine := func() bool {
		i++
		if i&0x3ff == 0 && w.OverBudget() {
			return false
		}
		return w.Mine(i)
	}
	// (1) the annotated-model family (C04/C14)
	level := 2
	if w.Thorough() {
		level = 3
	}
	gen.AnnotatedFamily(level, func(m *gen.Model) {
		if mine() {
			p := modelProject(m, gen.Canonical)
			if c08Case(w, p, "annotated") && i%3001 == 1 {
				w.Sample(p.describe())
			}
		}
	})
	// (2) C01: typed values in every position (value variations the rules accept)
	// grouped by rule set: the members of a group differ in the one scalar only, which
	// gives the variations of each other's example
	groups := map[string][]tv{}
	var order []string
	c01TypedValues(w.Thorough(), func(t tv) {
		key := strings.Join(t.Rules, ", ") + "|" + t.Witness
		if _, ok := groups[key]; !ok {
			order = append(order, key)
		}
		groups[key] = append(groups[key], t)
	})
	for _, key := range order {
		if !mine() {
			continue
		}
		g := groups[key]
		c, hasConst := ruleValue(g[0].Rules, "const")
		fixed := hasConst && c == "true" // the example itself is the rule: no other value is accepted
		for _, pos := range c01Positions {
			var arts []*c08Art
			var lits []string
			for _, t := range g {
				if p, _ := place(t, pos); p != nil {
					c08Last = nil
					c08Case(w, p, "typed-values")
					if c08Last != nil && !fixed {
						arts = append(arts, c08Last)
						lits = append(lits, t.Lit)
					}
				}
			}
			explicit := hasRule(g[0].Rules, "type") || hasRule(g[0].Rules, "or") || hasRule(g[0].Rules, "enum")
			switch pos {
			case "type-rule", "or-types", "or-diamond":
				explicit = true
			case "or-rulesets", "or-rulesets+other-inline-or":
				explicit = false // the inline rule-set is typed after the literal
			}
			c08Variations(w, arts, lits, explicit, pos)
		}
	}
	// (3) plain JSON incl. keys and strings that need escaping
	c03Values(w, func(v gen.JV) {
		if mine() {
			c08Case(w, &project{Root: v.Render(gen.JSONLayouts[3])}, "plain-json")
		}
	})
	// (4) reference sites (all types registered)
	for _, r := range c05Roots() {
		if mine() {
			c08Case(w, c05Project(r, c05All, nil), "references")
		}
	}
	// (5) key shortcuts with additionalProperties
	aps := []string{"", ` // {additionalProperties: true}`, ` // {additionalProperties: false}`, ` // {additionalProperties: "@o"}`}
	for _, t := range []string{"string", "integer", "float", "decimal", "boolean", "null", "array", "object", "any", "email", "uri", "uuid", "date", "datetime", "enum", "mixed"} {
		aps = append(aps, ` // {additionalProperties: "`+t+`"}`)
	}
	for _, ap := range aps {
		for _, body := range []string{"", "\t\"k\": 1", "\t@i: 1", "\t@o: {\n\t\t\"ok\": 1\n\t},\n\t@s: \"v\"", "\t\"k\": [],\n\t@arr: [\n\t\t1\n\t]","\t@s: 1", "\t\"k\": 1,\n\t@s: \"v\"", "\t@s: 1,\n\t\"k\": true", "\t@s: {\n\t\t\"in\": 1\n\t}",
			"\t\"\": 1,\n\t@s: \"v\"", "\t@s: 1,\n\t\"\": true,\n\t\"@s\": 2", "\t\"\": {\n\t\t@s: 1\n\t}"} {
			if mine() {
				c08Case(w, &project{Root: "{" + ap + "\n" + body + "\n}", Types: map[string]string{"@s": c05Defs["@s"], "@o": c05Defs["@o"], "@i": `1 // {min: 0}`, "@arr": "[\n\t1\n]"}}, "key-shortcuts")
			}
		}
	}
	// (4b) `const: true` inside an `or` rule-set fixes the value to the element's example,
	// whatever the item's own type is
	for _, exv := range []string{`"x"`, `5`, `1.5`, `true`, `null`, `"a@b.cc"`, `"5"`} {
		for _, it := range []string{"string", "integer", "float", "boolean", "null", "email", "decimal", "any"} {
			for _, other := range []string{"string", "integer", "float", "boolean", "null"} {
				for _, first := range []string{`{type: "` + it + `", const: true}`, `{const: true, type: "` + it + `"}`, `{type: "` + it + `", const: false}`} {
					for _, orv := range []string{`[` + first + `, {type: "` + other + `"}]`, `[{type: "` + other + `"}, ` + first + `]`, `[` + first + `, "` + other + `"]`} {
						for _, wrap := range []string{"%s", "{\n\t\"k\": %s\n}", "[\n\t%s\n]"} {
							if mine() {
								c08Case(w, &project{Root: fmt.Sprintf(wrap, exv+" // {or: "+orv+"}")}, "or-const-items")
							}
						}
					}
				}
			}
		}
	}
	// (4e) recursion through an optional property or an array: where Example() cuts the
	// recursion off, what it leaves must still be an instance
	for _, rp := range []*project{
		{Root: "@b", Types: map[string]string{"@a": "{\n\t\"x\": @b\n}", "@b": "{\n\t\"y\": @a // {optional: true}\n}"}},
		{Root: "{\n\t\"r\": @b\n}", Types: map[string]string{"@a": "{\n\t\"x\": @b\n}", "@b": "{\n\t\"y\": @a // {optional: true}\n}"}},
		{Root: "@a", Types: map[string]string{"@a": "{\n\t\"kids\": [ // {minItems: 1}\n\t\t@a\n\t]\n}"}},
		{Root: "@a", Types: map[string]string{"@a": "{\n\t\"kids\": [\n\t\t@a\n\t]\n}"}},
		{Root: "@a", Types: map[string]string{"@a": "{\n\t\"next\": @a, // {optional: true}\n\t\"v\": 1\n}"}},
		{Root: "@a", Types: map[string]string{"@a": "{\n\t\"next\": @a, // {nullable: true}\n\t\"v\": 1\n}"}},
		{Root: "@a", Types: map[string]string{"@a": "{\n\t\"next\": @b, // {optional: true}\n\t\"v\": 1\n}", "@b": "{\n\t\"back\": @a,\n\t\"w\": 2\n}"}},
	} {
		if mine() {
			c08Case(w, rp, "recursive-cutoff")
		}
	}
	// (4d) long strings (around and beyond 256 bytes, one- and two-byte characters) pinned by
	// const or listed in an enum: the value must reach the Schema Object whole
	for _, n := range []int{64, 255, 256, 257, 300, 1000, 5000} {
		for _, unit := range []string{"x", "д"} {
			long := `"` + strings.Repeat(unit, n) + `"`
			for _, root := range []string{long + " // {const: true}", "{\n\t\"k\": " + long + " // {const: true}\n}", long + " // {enum: [" + long + ", \"b\"]}",
				long + ` // {or: [{type: "string", const: true}, {type: "integer"}]}`, long + " // {minLength: 1}", "[\n\t@t\n]"} {
				if mine() {
					c08Case(w, &project{Root: root, Types: map[string]string{"@t": long + " // {const: true}"}}, "long-strings")
				}
			}
		}
	}
	// (4c) `or` lists whose items share a type name and differ in their other rules
	sameType := []string{`{type: "integer", min: 0}`, `{type: "integer", max: -10}`, `{type: "float", min: 10}`, `{type: "float", max: 3}`, `{type: "string", maxLength: 3}`,
		`{type: "string", regex: "^[0-9]+$"}`, `{type: "enum", enum: ["a"]}`, `{type: "enum", enum: ["b", 7]}`, `"integer"`, `"string"`, `{type: "decimal", precision: 1}`, `{type: "decimal", precision: 3, min: 100}`}
	for _, a := range sameType {
		for _, b := range sameType {
			for _, exv := range []string{`-20`, `5`, `7`, `2.5`, `20.5`, `100.125`, `"12345"`, `"ab"`, `"b"`, `"a"`} {
				for _, wrap := range []string{"%s", "{\n\t\"k\": %s\n}"} {
					if mine() {
						c08Case(w, &project{Root: fmt.Sprintf(wrap, exv+" // {or: ["+a+", "+b+"]}")}, "or-same-type-items")
					}
				}
			}
		}
	}
	// (5b) key shortcuts whose type example needs escaping inside the key
	for _, kt := range []string{`"ab\""`, `"\"ab"`, `"a\\"`, `"\"\""`, `"a\nb"`, `"\u0041\""`, `""`} {
		for _, body := range []string{"{\n\t@k: 1\n}", "{\n\t\"p\": 0,\n\t@k: \"v\"\n}", "[\n\t{\n\t\t@k: 1\n\t}\n]"} {
			if mine() {
				c08Case(w, &project{Root: body, Types: map[string]string{"@k": kt}}, "key-shortcut-escapes")
			}
		}
	}
	// (5c) one type used several times as a key shortcut and as a value, in every order
	slots := []string{"{\n\t\t@id: 1\n\t}", "@id", "@id | @s", "[\n\t\t@id\n\t]", `"u-2" // {type: "@id"}`}
	var seqs [][]int
	var gens func(p []int)
	gens = func(p []int) {
		if len(p) >= 3 {
			seqs = append(seqs, append([]int{}, p...))
		}
		if len(p) == 4 {
			return
		}
		for i := range slots {
			gens(append(p, i))
		}
	}
	gens(nil)
	for _, sq := range seqs {
		if !mine() {
			continue
		}
		var props []string
		for i, sl := range sq {
			txt := slots[sl]
			line := fmt.Sprintf("\t\"p%d\": ", i)
			comma := ","
			if i == len(sq)-1 {
				comma = ""
			}
			if j := strings.Index(txt, " // "); j >= 0 {
				line += txt[:j] + comma + txt[j:]
			} else {
				line += txt + comma
			}
			props = append(props, line)
		}
		c08Case(w, &project{Root: "{\n" + strings.Join(props, "\n") + "\n}", Types: map[string]string{"@id": `"u-1"`, "@s": `"s"`}}, "key-shortcut-reuse")
	}
	// (8) recursive types: whatever ends the recursion, the example must still be an
	// instance (a required nullable property is null, not missing)
	for _, ta := range []string{"{\n\t\"x\": @a // {nullable: true}\n}", "{\n\t\"x\": @a, // {nullable: true}\n\t\"y\": 1\n}", "{\n\t\"y\": 1,\n\t\"x\": @a // {nullable: true}\n}",
		"{\n\t\"x\": @a // {optional: true}\n}", "{\n\t\"x\": @a, // {optional: true}\n\t\"y\": 1\n}", "{\n\t\"l\": [\n\t\t@a\n\t]\n}", "{\n\t\"c\": @a | @s\n}", "{\n\t\"c\": @s | @a\n}",
		"{\n\t\"n\": {\n\t\t\"in\": @a // {nullable: true}\n\t}\n}", "{\n\t\"b\": @b // {nullable: true}\n}", "{\n\t\"x\": @a, // {optional: true, nullable: true}\n\t\"z\": @b // {optional: true}\n}"} {
		for _, root := range []string{"@a", "{\n\t\"r\": @a\n}", "[\n\t@a\n]", "@a | @s"} {
			if mine() {
				c08Case(w, &project{Root: root, Types: map[string]string{"@a": ta, "@s": `"s"`, "@b": "{\n\t\"back\": @a // {nullable: true}\n}"}}, "recursive-types")
			}
		}
	}
	// (7) regex user types in every kind of reference
	for _, body := range []string{"@r", "{\n\t\"k\": @r\n}", "[\n\t@r\n]", `"aab" // {type: "@r"}`, "@r | @s", `"aab" // {or: ["@r", "integer"]}`,
		"{\n\t@r: 1\n}", "{} // {additionalProperties: \"@r\"}", "{\n\t\"k\": @r, // {optional: true}\n\t\"m\": @q\n}"} {
		for _, re := range []string{"/a+b/", "/[a-c]{2,4}\\d/", "/x|y/", "/\\//"} {
			if mine() {
				c08Case(w, &project{Root: body, Types: map[string]string{"@s": c05Defs["@s"], "@q": "{\n\t\"r\": @r\n}"}, Regex: map[string]string{"@r": re}}, "regex-types")
			}
		}
	}
	// (6) allOf inheritance graphs (a slice of C07's family: every root form x a few ancestors)
	c08AllOf(w, mine)
	c08CrossCheck(w)
	if w.Shard == 0 {
		w.S.States += i
	}
}

func c08AllOf(w *core.W, mine func() bool) {
	k := func(n string) c07Key { return c07Key{Name: n} }
	ko := func(n string) c07Key { return c07Key{Name: n, Optional: true} }
	obj := func(own []c07Key, allOf []string, ap string) *c07Type {
		return &c07Type{Shape: "object", Own: own, AllOf: allOf, AP: ap}
	}
	for _, own := range [][]c07Key{nil, {k("k1")}, {k("k1"), ko("k2")}} {
		for _, al := range [][]string{{"@a"}, {"@a", "@b"}, {"@b"}} {
			for _, ap := range []string{"", "true", "false"} {
				for _, a := range []*c07Type{obj([]c07Key{k("a1")}, nil, ""), obj([]c07Key{ko("a1")}, []string{"@b"}, ""), obj([]c07Key{k("a1")}, nil, ap)} {
					if !mine() {
						continue
					}
					m := &c07Model{Types: map[string]*c07Type{"@root": obj(own, al, ap), "@a": a, "@b": obj([]c07Key{k("b1")}, nil, ""), "@c": obj([]c07Key{k("c1")}, nil, "")}}
					c08Case(w, m.project(), "allOf")
				}
			}
		}
	}
}

func init() {
	Register(&Prop{
		ID:        "C08",
		Technique: "bounded exhaustive enumeration of accepted schema projects (the families of C01, C03, C04, C05, C07 plus key-shortcut/additionalProperties combinations); each example is validated against the generated OpenAPI schema by an independent Schema-Object validator with user types resolved through a components map",
		Rule:      "every accepted project with a root value from: annotated-model family, typed values x 8 positions (value variations), plain JSON values incl. escapes, reference sites with all types registered, key shortcuts x additionalProperties, allOf graphs; clauses: Example() succeeds and is RFC 8259; conversion succeeds and is JSON; root and every component are well-formed Schema Objects (keyword set, value types, resolvable $ref); the example is a valid instance, and so is every other accepted value of the same rule set in the same position (one-scalar variations); non-trivial = accepted projects with a root value",
		Bounds: func(tier string) map[string]any {
			return map[string]any{"annotated_family_level": map[string]int{"quick": 2, "thorough": 3}[tier]}
		},
		Run: c08Run,
		Replay: func(w *core.W, v *core.Violation) {
			var p project
			if stdjson.Unmarshal(v.Witness, &p) == nil {
				c08Case(w, &p, v.Entry)
			}
		},
		Assumptions: []string{
			"the validator implements JSON Schema draft-4 semantics + OpenAPI 3.0 nullable; `format` is treated as an annotation; the thorough tier re-judges distinct (schema, instance) pairs with python jsonschema (Draft4Validator) when available",
			"components = conversions of the registered types under their names without '@'",
		},
	})
}
