package props

import (
	stdjson "encoding/json"
	"fmt"
	"regexp"
	"strings"

	schema "github.com/jsightapi/jsight-schema-core"
	"github.com/jsightapi/jsight-schema-core/notations/jschema"
	jregex "github.com/jsightapi/jsight-schema-core/notations/regex"
	"github.com/jsightapi/jsight-schema-core/openapi"

	"verifmc/core"
	"verifmc/seq"
)

// C18 — regex schemas: accepted iff `/pattern/` compiles; the example matches it.

var c18Tokens = toks(`/`, `\`, `a`, `(`, `)`, `[`, `]`, `*`, `+`, `?`, `.`, `|`, `{`, `}`, `1`, `^`, `$`)

func c18N(tier string) int {
	if tier == "thorough" {
		return 7
	}
	return 6
}

var c18Instances = []string{"", "a", "aa", "a1", "/", "(", "1", "aaa"}
var c18Witnesses []string

func init() {
	alpha := []string{"a", "1", "/", "(", ")", "[", "."}
	c18Witnesses = []string{""}
	prev := []string{""}
	for l := 0; l < 3; l++ {
		var next []string
		for _, p := range prev {
			for _, a := range alpha {
				next = append(next, p+a)
			}
		}
		c18Witnesses = append(c18Witnesses, next...)
		prev = next
	}
	Register(&Prop{
		ID:        "C18",
		Technique: "bounded exhaustive enumeration of regex-schema texts over a 17-byte alphabet, judged by a delimiter reference + Go regexp",
		Rule: "every string of <= N bytes over {/ \\ a ( ) [ ] * + ? . | { } 1 ^ $} plus the empty text; accepted ones are additionally used as user type @r against 8 candidate instance strings; " +
			"non-trivial = texts that the reference accepts (delimited, compilable pattern)",
		Bounds: func(tier string) map[string]any {
			return map[string]any{"max_bytes": c18N(tier), "instances": c18Instances}
		},
		Run:    c18Run,
		Replay: func(w *core.W, v *core.Violation) { c18Case(w, inputBytes(v), "replay") },
		Assumptions: []string{
			"Go regexp is the reference for 'valid regular expression' and for matching",
			"'Example() is matched by the pattern' is demanded only for patterns that some string of <=3 characters over {a 1 / ( ) [ .} matches (unsatisfiable patterns carry no claim)",
		},
	})
}

// refRegexSplit: index of the closing delimiter, or -1.
func refRegexSplit(text []byte) int {
	if len(text) == 0 || text[0] != '/' {
		return -1
	}
	bs := 0
	for i := 1; i < len(text); i++ {
		switch text[i] {
		case '\\':
			bs++
		case '/':
			if bs%2 == 0 {
				return i
			}
			bs = 0
		default:
			bs = 0
		}
	}
	return -1
}

type positioned interface {
	Index() uint
	Line() uint
	ErrCode() int
}

func c18Case(w *core.W, in []byte, entry string) {
	w.S.Evaluations++
	w.S.Traces++
	w.S.Transitions += int64(len(in)) + 1
	end := refRegexSplit(in)
	var pattern string
	var re *regexp.Regexp
	want := false
	if end > 0 {
		pattern = string(in[1:end])
		var err error
		re, err = regexp.Compile(pattern)
		want = err == nil
	}
	var err error
	rs := jregex.New("re", in)
	if rec, site := guard(func() { err = rs.Check() }); rec != nil {
		w.Violate(bv("no-panic", entry, in, fmt.Sprintf("Check panicked: %v", rec), map[string]string{"site": site}))
		return
	}
	acc := err == nil
	// the verdict does not depend on which method is asked first: an outer scanner asks for
	// the length before anything else, a converter for the AST
	for _, first := range []string{"Len", "GetAST"} {
		rs2 := jregex.New("re", in)
		var err2 error
		if rec, site := guard(func() {
			switch first {
			case "Len":
				rs2.Len()
			case "GetAST":
				rs2.GetAST()
			case "Example":
				rs2.Example()
			}
			err2 = rs2.Check()
		}); rec != nil {
			w.Violate(bv("no-panic", entry, in, fmt.Sprintf("%s then Check panicked: %v", first, rec), map[string]string{"site": site}))
			return
		}
		if (err2 == nil) != acc {
			w.Violate(bv("verdict-independent-of-call-order", entry, in, fmt.Sprintf("Check() alone: accepted=%v (%s); after %s() on a fresh object: accepted=%v (%s)", acc, errStr(err), first, err2 == nil, errStr(err2)), map[string]string{"first": first}))
			return
		}
	}
	if acc != want {
		kind := "other"
		if end == 1 {
			kind = "empty-pattern"
		}
		w.Violate(bv("accept-iff-delimited-and-compiles", entry, in, fmt.Sprintf("accepted=%v, reference says %v (%s)", acc, want, errStr(err)), map[string]string{"kind": kind, "want": fmt.Sprint(want)}))
		return
	}
	if !acc {
		w.Class("reject")
		pe, ok := err.(positioned)
		var msg string
		rec, _ := guard(func() { msg = err.Error() })
		switch {
		case rec != nil:
			w.Violate(bv("rejection-positioned", entry, in, fmt.Sprintf("Error() panicked: %v", rec), nil))
		case !ok:
			w.Violate(bv("rejection-positioned", entry, in, fmt.Sprintf("error of type %T carries no position: %s", err, trunc(msg, 80)), nil))
		case !strings.Contains(msg, "in line "):
			w.Violate(bv("rejection-positioned", entry, in, "rendering shows no position: "+trunc(msg, 80), nil))
		case len(in) > 0 && int(pe.Index()) >= len(in):
			w.Violate(bv("rejection-positioned", entry, in, fmt.Sprintf("index %d outside text of length %d", pe.Index(), len(in)), nil))
		}
		return
	}
	w.Class("accept")
	w.S.Nontrivial++
	w.Sample(string(in))
	// accepted: Len, Example, AST, OpenAPI
	var l uint
	var ex []byte
	var ast schema.ASTNode
	var oas []byte
	var e1, e2, e3, e4 error
	if rec, site := guard(func() {
		l, e1 = rs.Len()
		ex, e2 = rs.Example()
		ast, e3 = rs.GetAST()
		oas, e4 = openapi.NewSchemaObject(rs).MarshalJSON()
	}); rec != nil {
		w.Violate(bv("no-panic", entry, in, fmt.Sprintf("Len/Example/GetAST/OpenAPI panicked: %v", rec), map[string]string{"site": site}))
		return
	}
	// the caller owns the bytes it got: writing to them must not change what the
	// schema answers next
	if e2 == nil {
		first := string(ex)
		for i := range ex {
			ex[i] = 'X'
		}
		again, e5 := rs.Example()
		if e5 != nil || string(again) != first {
			w.Violate(bv("example-stable-after-caller-write", entry, in, fmt.Sprintf("Example()=%q; after the caller overwrote the returned bytes Example()=%q err=%v", first, again, e5), nil))
		}
		ex = []byte(first)
	}
	if e1 != nil || int(l) != end+1 {
		w.Violate(bv("len", entry, in, fmt.Sprintf("Len()=%d err=%v, delimited length is %d", l, e1, end+1), nil))
	}
	exampleOK := true
	satisfiable := false
	for _, c := range c18Witnesses {
		if re.MatchString(c) {
			satisfiable = true
			break
		}
	}
	if satisfiable {
		if e2 != nil {
			exampleOK = false
			w.Violate(bv("example-matches", entry, in, "Example() failed: "+errStr(e2), map[string]string{"how": "error"}))
		} else if !re.Match(ex) {
			exampleOK = false
			w.Violate(bv("example-matches", entry, in, fmt.Sprintf("Example()=%q is not matched by %q", ex, pattern), map[string]string{"how": "no-match", "anchors": fmt.Sprint(c18HasAssertion(pattern))}))
		}
	} else {
		w.Class("unsatisfiable-within-3")
	}
	// the same holds for every generator seed a caller passes, and a seed fixes the example
	if satisfiable && exampleOK {
		for _, seed := range []int64{1, 42} {
			var a, b []byte
			var ea, eb error
			if rec, site := guard(func() {
				a, ea = jregex.New("r", in, jregex.WithGeneratorSeed(seed)).Example()
				b, eb = jregex.New("r", in, jregex.WithGeneratorSeed(seed)).Example()
			}); rec != nil {
				w.Violate(bv("no-panic", entry, in, fmt.Sprintf("Example() with seed %d panicked: %v", seed, rec), map[string]string{"site": site}))
				break
			}
			if ea != nil || !re.Match(a) {
				w.Violate(bv("example-matches", entry, in, fmt.Sprintf("seed %d: Example()=%q err=%v is not matched by %q", seed, a, ea, pattern), map[string]string{"how": "seeded", "anchors": fmt.Sprint(c18HasAssertion(pattern))}))
				break
			}
			if eb != nil || string(a) != string(b) {
				w.Violate(bv("example-fixed-by-seed", entry, in, fmt.Sprintf("seed %d: two schemas over the same text gave %q and %q (err=%v)", seed, a, b, eb), nil))
				break
			}
		}
	}
	if e3 != nil || ast.Value != "/"+pattern+"/" || ast.TokenType != schema.TokenTypeString {
		w.Violate(bv("ast", entry, in, fmt.Sprintf("AST value %q type %q err=%v, want /%s/", ast.Value, ast.TokenType, e3, pattern), nil))
	}
	var o map[string]any
	if e4 != nil || stdjson.Unmarshal(oas, &o) != nil || o["pattern"] != pattern || o["type"] != "string" {
		w.Violate(bv("openapi-pattern", entry, in, fmt.Sprintf("OpenAPI %s err=%v, want pattern %q", trunc(string(oas), 100), e4, pattern), nil))
	}
	// as a user type (the stand-in type is built around Example(); when that example
	// does not match its own pattern the failure was reported above and the
	// verdicts below would only repeat it)
	if !exampleOK || (e2 == nil && !re.Match(ex)) {
		w.Class("as-user-type-skipped:example-does-not-match")
		return
	}
	for idx, inst := range c18Instances {
		w.S.Evaluations++
		lit, _ := stdjson.Marshal(inst)
		root := jschema.New("root", string(lit)+` // {type: "@r"}`)
		var aerr, cerr error
		if rec, site := guard(func() {
			aerr = root.AddType("@r", jregex.New("re", in))
			if aerr == nil {
				// other work between the registration and the check: a second regex
				// type, and an example built by another schema
				if idx == 0 { // for the first instance of every pattern
					if e := root.AddType("@other", jregex.New("other", `/x+y{2}z/`)); e != nil {
						aerr = e
						return
					}
					_, _ = jschema.New("busy", "{\n\t\"k\": [\n\t\t1,\n\t\t\"two\"\n\t]\n}").Example()
				}
				cerr = root.Check()
			}
		}); rec != nil {
			w.Violate(bv("no-panic", entry, in, fmt.Sprintf("AddType/Check with instance %q panicked: %v", inst, rec), map[string]string{"site": site}))
			return
		}
		wantOK := re.MatchString(inst)
		if aerr != nil {
			w.Violate(bv("as-user-type", entry, in, fmt.Sprintf("AddType of an accepted regex schema failed: %s", errStr(aerr)), map[string]string{"how": "addtype"}))
			return
		}
		if (cerr == nil) != wantOK {
			w.Violate(bv("as-user-type", entry, in, fmt.Sprintf("instance %q: Check()=%s, pattern match=%v", inst, errStr(cerr), wantOK), map[string]string{"how": fmt.Sprintf("verdict-want-%v", wantOK)}))
			return
		}
	}
}

// c18Extra: patterns outside the token alphabet that stress the example generator
// (negated classes up to the ends of the code space, word-boundary assertions,
// counted repetitions, non-greedy and nested groups).
var c18Extra = []string{`/[^\x00-\x7f]/`, `/[^\x00-\x{10FFFF}]/`, `/[^a]/`, `/[^\x00-\x{10FFFE}]/`, `/\Ba/`, `/\b/`, `/a\bb/`, `/a{0}/`, `/a{2,}/`, `/(a|b){3}?/`, `/((a)|(b)*)+/`,
	`/\pL/`, `/\PL/`, `/[[:alpha:]]/`, `/[^[:ascii:]]/`, `/(?i)ab/`, `/(?s)./`, `/\x{10FFFF}/`, `/\Q.\E/`, `/a*?b+?c??/`, `/.{0,1000}/`, `/\d\D\s\S\w\W/`}

// c18HasAssertion: the pattern contains an anchor or another zero-width assertion (the
// example generator ignores all of them: KF-C18-anchored-example).
func c18HasAssertion(pattern string) bool {
	if strings.ContainsAny(pattern, "^$") {
		return true
	}
	for _, a := range []string{`\b`, `\B`, `\A`, `\z`} {
		if strings.Contains(pattern, a) {
			return true
		}
	}
	return false
}

func c18Run(w *core.W) {
	if w.Shard == 0 {
		for _, t := range c18Extra {
			c18Case(w, []byte(t), "extra")
		}
	}
	e := &seq.Enum{Tokens: c18Tokens, N: c18N(w.Tier), W: w}
	e.Run(func(s []byte, ntok int, own bool) bool {
		if own {
			c18Case(w, s, "seq")
		}
		return false
	})
	w.S.States += e.Nodes
}
