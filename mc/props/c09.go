package props

import (
	"bufio"
	"bytes"
	stdjson "encoding/json"
	"errors"
	"fmt"
	"io"
	"os"
	"os/exec"
	"path/filepath"
	"regexp"
	"strings"

	schema "github.com/jsightapi/jsight-schema-core"
	jdoc "github.com/jsightapi/jsight-schema-core/formats/json"
	jregex "github.com/jsightapi/jsight-schema-core/notations/regex"
	"github.com/jsightapi/jsight-schema-core/openapi"
	"github.com/jsightapi/jsight-schema-core/rules/enum"
	"github.com/jsightapi/jsight-schema-core/verifshim/venv"

	"verifmc/core"
	"verifmc/explore"
	"verifmc/gen"
)

// C09 — same input, same answer: independent of map order, addresses, registration order.

type c09Case struct {
	ID      string   `json:"id"`
	Kind    string   `json:"kind"` // project | enum | regex | jsondoc | guess
	Project *project `json:"project,omitempty"`
	Text    string   `json:"text,omitempty"`
}

func (o obs) digest() string {
	return core.HashOf(fmt.Sprintf("%s|%d|%s|%s|%s|%s|%s|%s|%s|%s", o.BuildErr, o.Code, o.Msg, o.Pos, o.Len, o.AST, o.Example, o.Used, o.OpenAPI, o.Panic))
}

func (o obs) diff(b obs) string {
	var d []string
	add := func(n, x, y string) {
		if x != y {
			d = append(d, fmt.Sprintf("%s: %q vs %q", n, trunc(x, 90), trunc(y, 90)))
		}
	}
	add("build", o.BuildErr, b.BuildErr)
	add("code", fmt.Sprint(o.Code), fmt.Sprint(b.Code))
	add("message", o.Msg, b.Msg)
	add("position", o.Pos, b.Pos)
	add("len", o.Len, b.Len)
	add("ast", o.AST, b.AST)
	add("example", o.Example, b.Example)
	add("used", o.Used, b.Used)
	add("openapi", o.OpenAPI, b.OpenAPI)
	add("panic", o.Panic, b.Panic)
	return strings.Join(d, "; ")
}

func (o obs) firstField(b obs) string {
	d := o.diff(b)
	if i := strings.Index(d, ":"); i > 0 {
		return d[:i]
	}
	return "none"
}

// observeText: observables of the non-project entry points.
func observeText(kind, text string) (o obs) {
	in := []byte(text)
	rec, site := guard(func() {
		switch kind {
		case "enum":
			e := enum.New("e", in)
			err := e.Check()
			o.Code, o.Msg, o.Pos = errCode(err), errMsg(err), errPos(err)
			if l, le := e.Len(); le == nil {
				o.Len = fmt.Sprint(l)
			}
			if vals, ve := e.Values(); ve == nil {
				for _, v := range vals {
					o.Example += fmt.Sprintf("%s:%s:%q;", v.Type, v.Value.String(), v.Comment)
				}
			}
			if a, ae := e.GetAST(); ae == nil {
				b, _ := stdjson.Marshal(a)
				o.AST = string(b)
			}
		case "regex":
			r := jregex.New("r", in)
			err := r.Check()
			o.Code, o.Msg, o.Pos = errCode(err), errMsg(err), errPos(err)
			if l, le := r.Len(); le == nil {
				o.Len = fmt.Sprint(l)
			}
			if ex, ee := r.Example(); ee == nil {
				o.Example = string(ex)
			}
			if a, ae := r.GetAST(); ae == nil {
				b, _ := stdjson.Marshal(a)
				o.AST = string(b)
			}
			if err == nil {
				b, _ := openapi.NewSchemaObject(r).MarshalJSON()
				o.OpenAPI = string(b)
			}
		case "jsondoc":
			d := jdoc.New("d", in)
			err := d.Check()
			o.Code, o.Msg, o.Pos = errCode(err), errMsg(err), errPos(err)
			if l, le := d.Len(); le == nil {
				o.Len = fmt.Sprint(l)
			}
			d2 := jdoc.New("d", in)
			for i := 0; i < 10*len(in)+16; i++ {
				lex, e := d2.NextLexeme()
				if errors.Is(e, io.EOF) || e != nil {
					break
				}
				o.AST += lex.String() + ";"
			}
		case "guess":
			t, err := schema.GuessSchemaType(in)
			o.Code, o.Msg = errCode(err), errMsg(err)
			o.Example = string(t)
		}
	})
	if rec != nil {
		o.Panic = fmt.Sprintf("%v@%s", rec, site)
	}
	return o
}

func c09Observe(c *c09Case) obs {
	if c.Kind == "project" {
		o, _ := observe(c.Project)
		return o
	}
	return observeText(c.Kind, c.Text)
}

// c09Family: projects built so that every map-range site matters, plus a slice of
// the annotated-model family and the byte-level entry points.
func c09Family(thorough bool) []*c09Case {
	var out []*c09Case
	add := func(kind string, p *project, text string) {
		c := &c09Case{Kind: kind, Project: p, Text: text}
		c.ID = fmt.Sprintf("%s-%d", kind, len(out))
		out = append(out, c)
	}
	// several broken / valid types: which error is reported?
	typeForms := []string{`{` + "\n\t\"k\": 1\n}", `0 // {min: 1}`, "{\n\t\"k\": @zz\n}", `{} // {allOf: "@s"}`, `"ab" // {maxLength: 1}`, "{ // {allOf: \"@o\"}\n\t\"own\": 1 // {or: [{type: \"integer\"}, {type: \"string\"}]}\n}"}
	roots := []string{`1`, `@a`, "{\n\t\"k\": @b,\n\t\"m\": @c\n}", `2 // {min: 3}`, "{} // {allOf: [\"@a\", \"@b\"]}"}
	for ri, r := range roots {
		for i, a := range typeForms {
			for j, b := range typeForms {
				for k, c := range typeForms {
					if !thorough && (i+j+k+ri)%2 == 1 {
						continue
					}
					add("project", &project{Root: r, Types: map[string]string{"@a": a, "@b": b, "@c": c, "@s": `"s"`, "@o": "{\n\t\"ok\": 1\n}"}}, "")
				}
			}
		}
	}
	// unnamed types (from `@a | @b` shortcuts and inline `or` rule-sets) that fail inside a registered type
	for _, tt := range []string{"{\n\t\"k\": @a | @gone\n}", "{\n\t\"k\": 1 // {or: [{type: \"@a\"}, {type: \"@gone\"}]}\n}", "[\n\t@gone | @a\n]", "{\n\t\"k\": 5 // {or: [{type: \"integer\", min: 9}, {type: \"string\"}]}\n}"} {
		for _, r := range []string{"{\n\t\"x\": @t\n}", `@t`, "[\n\t@t,\n\t@a\n]"} {
			add("project", &project{Root: r, Types: map[string]string{"@t": tt, "@a": `1`}}, "")
		}
	}
	// recursion through `or` lists that mix inline rule-sets (unnamed types) and names
	for _, tu := range []string{`5 // {or: [{type: "integer"}, "@u"]}`, `5 // {or: ["@u", {type: "integer"}]}`, `5 // {or: [{type: "integer"}, {type: "@u"}]}`,
		`5 // {or: [{type: "integer"}, "@v"]}`, "{\n\t\"k\": 1 // {or: [{type: \"integer\"}, \"@u\"]}\n}", `@v | @u`, `5 // {or: [{type: "string"}, {type: "integer"}, "@v"]}`} {
		for _, r := range []string{`@u`, "{\n\t\"x\": @u\n}", `1 // {type: "@u"}`, `@v`, `1 // {or: [{type: "string"}, "@u"]}`} {
			add("project", &project{Root: r, Types: map[string]string{"@u": tu, "@v": `@u`}}, "")
		}
	}
	// types that carry their own type tables: agreeing, conflicting with each other,
	// conflicting with the root's registration, and the meshed catalogue
	for _, r := range []string{"{\n\t\"x\": @t1,\n\t\"y\": @t2,\n\t\"z\": @inner\n}", "{\n\t\"x\": @t1,\n\t\"y\": @t2\n}", `@t1`} {
		for _, t1 := range []string{`@inner`, "{\n\t\"i\": @inner\n}", `1 // {or: [{type: "@inner"}, {type: "string"}]}`} {
			for ni, nest := range []map[string]map[string]string{
				{"@t1": {"@inner": `"str"`}, "@t2": {"@inner": `"str"`}},
				{"@t1": {"@inner": `"str"`}, "@t2": {"@inner": `true`}},
				{"@t1": {"@inner": `"str"`}},
				{"@t1": {"@inner": `5 // {or: [{type: "integer"}, {type: "string"}]}`}, "@t2": {"@inner": `7 // {or: [{type: "integer", min: 6}, {type: "string"}]}`}},
				{"@t1": {"@inner": `@deep`, "@deep": `1`}, "@t2": {"@inner": `@deep`, "@deep": `"d"`}},
			} {
				for _, own := range []string{"", `1`} {
					ts := map[string]string{"@t1": t1, "@t2": `@inner`}
					if own != "" {
						ts["@inner"] = own
					}
					if !thorough && ni >= 3 && own != "" {
						continue
					}
					add("project", &project{Root: r, Types: ts, Nested: nest}, "")
				}
			}
		}
	}
	// an heir of a type that carries its own type table (the inherited properties refer to
	// types only the ancestor knows, some of which have unnamed types of their own)
	for _, r := range []string{"{ // {allOf: \"@t1\"}\n\t\"r\": 1\n}", "{\n\t\"x\": @h\n}", "{ // {allOf: \"@h\"}\n\t\"r\": 1\n}", "[\n\t@h,\n\t@t1\n]"} {
		for _, t1 := range []string{"{\n\t\"f\": 5 // {type: \"@inner\"}\n}", "{\n\t\"f\": @inner\n}", "{\n\t\"f\": 5 // {or: [\"@inner\", \"string\"]}\n}", "{\n\t\"f\": 5 // {or: [{type: \"@inner\"}, {type: \"boolean\"}]}\n}"} {
			for _, nest := range []map[string]map[string]string{
				{"@t1": {"@inner": `5 // {or: [{type: "integer", min: 1}, {type: "string"}]}`}},
				{"@t1": {"@inner": `5`}},
				{"@t1": {"@inner": `5 // {type: "@deep"}`, "@deep": `5 // {or: [{type: "integer", min: 1}, {type: "string"}]}`}},
				{"@t1": {"@inner": `@deep | @d2`, "@deep": `5`, "@d2": `"s"`}},
			} {
				for _, own := range []string{"", `5`} {
					ts := map[string]string{"@t1": t1, "@h": "{ // {allOf: \"@t1\"}\n\t\"own\": true\n}"}
					if own != "" {
						ts["@inner"] = own
					}
					add("project", &project{Root: r, Types: ts, Nested: nest}, "")
				}
			}
		}
	}
	for _, r := range []string{`@a`, "{\n\t\"k\": @b,\n\t\"m\": @c\n}", "{} // {allOf: [\"@a\", \"@b\"]}"} {
		for _, a := range []string{"{\n\t\"k\": @b\n}", "{ // {allOf: \"@b\"}\n\t\"a\": 5 // {or: [{type: \"integer\"}, {type: \"@c\"}]}\n}", `@b | @c`} {
			for _, b := range []string{"{\n\t\"kb\": @c\n}", "{\n\t\"kb\": 1, // {or: [{type: \"@c\"}, {type: \"integer\"}]}\n\t\"back\": @a // {optional: true}\n}"} {
				add("project", &project{Root: r, Types: map[string]string{"@a": a, "@b": b, "@c": `"c"`}, Mesh: true}, "")
			}
		}
	}
	// type bodies filed under one name: whatever identifies an unnamed type must
	// not depend on the file name and offset alone
	for _, r := range []string{"{\n\t\"a\": @a,\n\t\"b\": @b\n}", `@a | @b`, `@b`} {
		for _, b := range []string{`7 // {or: [{type: "integer", min: 6}, {type: "string"}]}`, `7 // {or: [{type: "integer"}, {type: "string"}]}`, `"s" // {or: [{type: "integer", min: 6}, {type: "string"}]}`, `@c | @a`} {
			for _, a := range []string{`5 // {or: [{type: "integer"}, {type: "string"}]}`, `@a2 | @c`} {
				add("project", &project{Root: r, Types: map[string]string{"@a": a, "@b": b, "@c": `true`, "@a2": `2`}, TypeFile: "types.jst"}, "")
			}
		}
	}
	// string formats, banned-rule conflicts, enum rules with dotted strings
	for _, r := range []string{
		`"a@b.cc" // {type: "email", minLength: 1, regex: "a"}`, `"a@b.cc" // {type: "email", regex: "a", minLength: 1}`,
		`"2021-01-02" // {type: "date", maxLength: 3, minLength: 1}`, `"x" // {type: "uuid", regex: "x", maxLength: 1}`,
		`1 // {type: "any", const: true}`, `"a.b" // {enum: @e}`, `"1.5" // {enum: @e}`, `1.5 // {enum: @e}`,
		`"http://x.y/z" // {type: "uri"}`, `"2021-01-02T07:23:12+03:00" // {type: "datetime"}`,
		"{\n\t\"a\": 1, // {or: [{type: \"integer\"}, {type: \"string\"}]}\n\t\"b\": \"x\" // {or: [{type: \"integer\", min: 5}, {type: \"string\", maxLength: 0}]}\n}",
	} {
		add("project", &project{Root: r, Enums: map[string]string{"@e": `["a.b", "1.5", 1.5, 1]`, "@f": `[true]`}}, "")
	}
	// a slice of the annotated-model family
	level := 1
	var n int
	gen.AnnotatedFamily(level, func(m *gen.Model) {
		n++
		if thorough || n%4 == 0 {
			add("project", modelProject(m, gen.Canonical), "")
		}
	})
	// allOf graphs with several failing ancestors
	for _, al := range [][]string{{"@a", "@b"}, {"@b", "@a"}, {"@a", "@c"}} {
		q := fmt.Sprintf("%q, %q", al[0], al[1])
		add("project", &project{Root: "{} // {allOf: [" + q + "]}", Types: map[string]string{"@a": "{\n\t\"k\": 1\n}", "@b": "{\n\t\"k\": 2\n}", "@c": `1`}}, "")
		add("project", &project{Root: "{\n\t\"r\": 1\n}", Types: map[string]string{"@a": "{} // {allOf: \"@c\"}", "@b": "{} // {allOf: \"@zz\"}", "@c": `1`}}, "")
	}
	// other entry points
	for _, t := range []string{`[1, 2, "a.b", "1.5", 1.5, true, null]`, `[1, 1]`, `["a", "a"]`, `[`, ``, `[1] /* c */`, "[\n 1, // one\n 2 // two\n]"} {
		add("enum", nil, t)
	}
	for _, t := range []string{`/a+/`, `/[a-c]{2,4}\d/`, `//`, `/(/`, `abc`, ``, `/(a|b|c)+x?/`} {
		add("regex", nil, t)
	}
	for _, t := range []string{`{"a": [1, 2, {"b": null}], "c": "d"}`, `{"a": }`, `[1, 2`, ``, `  42  `, `{"k": 1.5e3}`} {
		add("jsondoc", nil, t)
	}
	for _, t := range []string{`"a.b"`, `"1.5"`, `1.5`, `1`, `1e2`, `1.5e1`, `true`, `null`, `{`, `[`, `x`, `"1e5"`, `-0`, `"."`} {
		add("guess", nil, t)
	}
	return out
}

var c09Addr = regexp.MustCompile(`0x[0-9a-f]{6,}|#0x|&\{`)

func c09Fail(w *core.W, c *c09Case, clause, detail string, sig map[string]string, choices []int) {
	wit, _ := stdjson.Marshal(map[string]any{"case": c, "choices": choices})
	in := c.Text
	if c.Project != nil {
		in = c.Project.describe()
	}
	w.Violate(core.Violation{Clause: clause, Entry: c.Kind, Input: in, Witness: wit, Detail: detail, Sig: sig})
}

// c09Explore: every map order within the deviation bound.
func c09Explore(w *core.W, c *c09Case, bound int, perOccurrence bool) {
	var base obs
	first := true
	sitesSeen := map[string]bool{}
	ex := &explore.Explorer{Bound: bound, MaxExec: 20000, Stop: w.OverBudget}
	ex.Run = func(ch *explore.Chooser) {
		chosen := map[string][]int{}
		occ := map[string]int{}
		venv.ResetNames()
		venv.Hook = func(site string, n int) []int {
			key := fmt.Sprintf("%s/%d", site, n)
			if perOccurrence {
				occ[key]++
				if occ[key] > 1 {
					key += "/later"
				}
			}
			if p, ok := chosen[key]; ok {
				return p
			}
			sitesSeen[site] = true
			perms := explore.Perms(n)
			p := perms[ch.Choose(len(perms))]
			chosen[key] = p
			return p
		}
		o := c09Observe(c)
		venv.Hook = nil
		w.S.Evaluations++
		w.S.Traces++
		w.S.Transitions += int64(len(ch.Choices))
		if first {
			base, first = o, false
			for _, s := range []string{o.Msg, o.Pos, o.AST, o.Example, o.OpenAPI, o.Used, o.BuildErr} {
				if m := c09Addr.FindString(s); m != "" {
					c09Fail(w, c, "no-address-in-observables", fmt.Sprintf("observable contains %q: %s", m, trunc(s, 120)), nil, nil)
					break
				}
			}
			return
		}
		if o != base {
			c09Fail(w, c, "same-under-every-map-order", "default order vs explored order: "+base.diff(o), map[string]string{"field": base.firstField(o), "codes": fmt.Sprintf("%d/%d", base.Code, o.Code)}, append([]int{}, ch.Choices...))
		}
	}
	ex.Explore()
	if ex.Divergence != "" {
		w.Violate(core.Violation{Clause: "ENGINE-replay-divergence", Entry: c.Kind, Input: c.ID, Detail: ex.Divergence})
	}
	if ex.Capped {
		w.Cap("map-order exploration capped at 20000 executions for a case")
	}
	if ex.Executions > 1 {
		w.S.Nontrivial++
	}
	w.S.States += ex.Executions
	for s := range sitesSeen {
		w.Count("site:"+s, 1)
	}
}

// c09Registration: every permutation of the AddType / AddRule calls.
func c09Registration(w *core.W, c *c09Case) {
	p := c.Project
	if p == nil || len(p.Types) < 2 || len(p.Types) > 4 {
		return
	}
	names := sortedKeys(p.Types)
	base, _ := observe(p)
	perms := explore.Perms(len(names))
	var ruleOrders [][]string
	rn := sortedKeys(p.Enums)
	ruleOrders = append(ruleOrders, nil)
	if len(rn) == 2 {
		ruleOrders = append(ruleOrders, []string{rn[1], rn[0]})
	}
	for _, pm := range perms[1:] {
		for _, ro := range ruleOrders {
			q := *p
			q.Order = make([]string, len(names))
			for i, j := range pm {
				q.Order[i] = names[j]
			}
			q.RuleOrder = ro
			o, _ := observe(&q)
			w.S.Evaluations++
			w.S.Traces++
			if o != base {
				c09Fail(w, &c09Case{ID: c.ID, Kind: "project", Project: &q}, "same-under-every-registration-order", fmt.Sprintf("order %v: %s", q.Order, base.diff(o)), map[string]string{"field": base.firstField(o)}, nil)
				return
			}
		}
	}
}

func c09Run(w *core.W) {
	fam := c09Family(w.Thorough())
	bound := 1
	if w.Thorough() {
		bound = 2
	}
	mine := map[string]obs{}
	for i, c := range fam {
		if !w.Mine(int64(i)) {
			continue
		}
		if w.OverBudget() {
			break
		}
		// twice in this process with a heap perturbation in between
		o1 := c09Observe(c)
		junk := make([][]byte, 0, 64)
		for k := 0; k < 64; k++ {
			junk = append(junk, make([]byte, 1024+k*37))
		}
		o2 := c09Observe(c)
		_ = junk
		if o1 != o2 {
			c09Fail(w, c, "same-on-repetition", "first vs second run in one process: "+o1.diff(o2), map[string]string{"field": o1.firstField(o2)}, nil)
		}
		mine[c.ID] = o1
		c09Explore(w, c, bound, w.Thorough())
		c09Registration(w, c)
		if i%97 == 0 && c.Project != nil {
			w.Sample(c.Project.describe())
		}
	}
	if len(venv.Calls) == 0 {
		w.Violate(core.Violation{Clause: "ENGINE-not-instrumented", Input: "", Detail: "no map-range site reported a call: this binary was not built with the map-range rewriting"})
	}
	// the same cases in a separate process of the PLAIN binary (real maps, real addresses)
	plain := filepath.Join(verifDirProps(), core.BuildDirName(), "mc")
	cmd := exec.Command(plain, "c09digest", fmt.Sprint(w.Shard), fmt.Sprint(w.Of), w.Tier)
	out, err := cmd.Output()
	if err != nil {
		w.Note("plain-binary digest run failed: " + err.Error())
	} else {
		sc := bufio.NewScanner(bytes.NewReader(out))
		sc.Buffer(make([]byte, 1<<20), 1<<24)
		n := int64(0)
		for sc.Scan() {
			f := strings.SplitN(sc.Text(), " ", 2)
			if len(f) != 2 {
				continue
			}
			if f[0] == "FAMILY" {
				if f[1] != c09FamilyPrint(fam) {
					w.Violate(core.Violation{Clause: "ENGINE-binaries-differ", Input: "", Detail: "the plain and the instrumented binary enumerate different case lists: they were built from different states of the sources (rebuild with run.sh build)"})
					return
				}
				continue
			}
			if o, ok := mine[f[0]]; ok {
				n++
				if o.digest() != f[1] {
					for _, c := range fam {
						if c.ID == f[0] {
							c09Fail(w, c, "same-in-every-process", "observables differ between this process and a separate process of the uninstrumented binary (digest mismatch)", nil, nil)
						}
					}
				}
			}
		}
		w.Count("cross_process_cases", n)
	}
}

func verifDirProps() string {
	if d := os.Getenv("VERIF_DIR"); d != "" {
		return d
	}
	return "/verif"
}

// C09Digest is run by the plain binary: prints "<case id> <digest>" for one shard.
func C09Digest(shard, of int, tier string) {
	fam := c09Family(tier == "thorough")
	fmt.Println("FAMILY", c09FamilyPrint(fam))
	for i, c := range fam {
		if of > 1 && i%of != shard {
			continue
		}
		fmt.Println(c.ID, c09Observe(c).digest())
	}
}

// c09FamilyPrint: a fingerprint of the case list. The two binaries of the cross-process
// comparison must enumerate the same cases (they are built one after the other from
// the same sources); if they do not, that is an error of the run, not a finding.
func c09FamilyPrint(fam []*c09Case) string {
	var b strings.Builder
	for _, c := range fam {
		b.WriteString(c.ID)
		b.WriteByte(0)
		if c.Project != nil {
			b.WriteString(c.Project.describe())
		}
		b.WriteString(c.Text)
		b.WriteByte(1)
	}
	return core.HashOf(b.String())
}

func init() {
	Register(&Prop{
		ID:        "C09",
		Inst:      true,
		Technique: "deviation-bounded exhaustive exploration of Go map iteration orders at every range-over-map site of the repository (type-driven source rewriting through the build overlay), all permutations of AddType/AddRule calls, repetition with heap perturbation, and a cross-process comparison with the uninstrumented binary",
		Rule:      "family: projects with 3 types from 6 valid/broken forms x 5 roots, format/banned-rule/enum-rule projects, a slice of the annotated-model family, allOf graphs with several failing ancestors, enum/regex/JSON-document/GuessSchemaType inputs; for each: every map order (all n! for n<=4, pair-complete set above) at <=1 (thorough 2) deviating sites per execution, all registration orders, two runs in-process, one run in another process; all observables (error code, message, position, offending type, Len, AST, example, used types, OpenAPI) must be identical; non-trivial = cases with more than one explored environment",
		Bounds: func(tier string) map[string]any {
			return map[string]any{"deviating_sites": map[string]int{"quick": 1, "thorough": 2}[tier], "per_case_execution_cap": 20000}
		},
		Run: c09Run,
		Replay: func(w *core.W, v *core.Violation) {
			var wit struct {
				Case    c09Case `json:"case"`
				Choices []int   `json:"choices"`
			}
			if stdjson.Unmarshal(v.Witness, &wit) != nil {
				return
			}
			c := &wit.Case
			switch v.Clause {
			case "same-under-every-map-order":
				c09Explore(w, c, 2, false)
			case "same-under-every-registration-order":
				// the witness project carries the failing order; compare with the sorted order
				q := *c.Project
				q.Order, q.RuleOrder = nil, nil
				base, _ := observe(&q)
				o, _ := observe(c.Project)
				if o != base {
					c09Fail(w, c, v.Clause, base.diff(o), v.Sig, nil)
				}
			default:
				o1, o2 := c09Observe(c), c09Observe(c)
				if o1 != o2 {
					c09Fail(w, c, v.Clause, o1.diff(o2), v.Sig, nil)
				}
			}
		},
		Assumptions: []string{
			"heap addresses and 'every process' cannot be enumerated: they are covered by a two-point comparison (two runs, two processes) and by the clause that no observable contains an address-like token",
			"the rewritten range loop snapshots the keys and skips keys deleted meanwhile - one of the behaviours Go permits",
		},
	})
}
