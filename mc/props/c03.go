package props

import (
	stdjson "encoding/json"
	"fmt"

	schema "github.com/jsightapi/jsight-schema-core"
	"github.com/jsightapi/jsight-schema-core/notations/jschema"

	"verifmc/core"
	"verifmc/gen"
	"verifmc/ref"
)

// C03 — plain JSON is a valid schema, preserved by Example() and the AST.

var c03Scalars = []string{`0`, `-0`, `1`, `-1`, `0.5`, `-0.50`, `10.01`, `""`, `"a"`, `"\""`, `"\\"`, `"\/"`, `"\b\f\n\r\t"`, `" "`, `"@a"`, `"//"`, `"#"`, `true`, `false`, `null`,
	`"A"`, `"\u0041"`, `"é"`, `"\u00e9"`, `"😀"`, `"\ud83d\ude00"`, `"/* x */"`, `"a: {b}"`, `"\u0001"`, `"\u007f"`, "\"\x7f\"", `"\udb40\udc01"`, `"\u000b\u0007"`, `"a\\u003cb"`, `"<&>"`, `"x�y"`}
var c03Keys = []string{`"a"`, `""`, `"a\"b"`, `"a\\b"`, `"\n"`, `"é"`, `"A"`, `"@a"`, `" "`, `"//x"`, `"#"`, `"\u0041"`, `"\u00E9"`, `"a/b"`, `"\t"`, `"a\u0001b"`, `"\u007f"`, "\"\x7f\"", `"\udb40\udc01"`, `"\u000b"`, `"\u0000"`, `"e\u0301"`, `"K"`, `"\u212a"`, `"a "`, `"k\\u0026"`, `"<&>"`, `"x�y"`}
var c03ScalarsSmall = []string{`1`, `-0.50`, `"a"`, `"\""`, `null`, `"\u0041"`}
var c03KeysSmall = []string{`"a"`, `"a\"b"`, `"\n"`, `"é"`, `"\u0001"`}

func c03Values(w *core.W, visit func(gen.JV)) {
	lits := func(ss []string) []gen.JV {
		var out []gen.JV
		for _, s := range ss {
			out = append(out, gen.Lit(s))
		}
		return out
	}
	decoded := func(k string) string { s, _ := ref.DecodeString([]byte(k)); return s }
	// containers of width <= 2 over the given keys and values
	containers := func(keys []string, vals []gen.JV) []gen.JV {
		out := []gen.JV{gen.Obj(nil, nil), gen.Arr()}
		for _, v := range vals {
			out = append(out, gen.Arr(v))
			for _, k := range keys {
				out = append(out, gen.Obj([]string{k}, []gen.JV{v}))
			}
		}
		for _, v1 := range vals {
			for _, v2 := range vals {
				out = append(out, gen.Arr(v1, v2))
				for _, k1 := range keys {
					for _, k2 := range keys {
						if decoded(k1) == decoded(k2) {
							continue // the statement excludes duplicate keys
						}
						out = append(out, gen.Obj([]string{k1, k2}, []gen.JV{v1, v2}))
					}
				}
			}
		}
		return out
	}
	// depth 0
	for _, l := range lits(c03Scalars) {
		visit(l)
	}
	// depth 1: full product
	for _, c := range containers(c03Keys, lits(c03Scalars)) {
		visit(c)
	}
	// depth 2 (thorough 3): reduced sets
	inner := containers(c03KeysSmall, lits(c03ScalarsSmall))
	// keep inner containers of width <= 1 plus a few width-2 ones to bound the product
	var innerSmall []gen.JV
	for _, c := range inner {
		if len(c.Items) <= 1 {
			innerSmall = append(innerSmall, c)
		}
	}
	innerSmall = append(innerSmall, gen.Obj([]string{`"a"`, `"a\"b"`}, lits([]string{`1`, `"\""`})), gen.Arr(gen.Lit(`-0.50`), gen.Lit(`null`)))
	level2 := containers(c03KeysSmall, append(lits([]string{`1`, `"a"`}), innerSmall...))
	for _, c := range level2 {
		visit(c)
	}
	if w.Thorough() {
		var l2small []gen.JV
		for i, c := range level2 {
			if i%7 == 0 || len(c.Items) <= 1 {
				l2small = append(l2small, c)
			}
		}
		if len(l2small) > 400 {
			l2small = l2small[:400]
		}
		for _, c := range containers([]string{`"a"`, `"\n"`}, append(lits([]string{`1`}), l2small...)) {
			visit(c)
		}
	}
}

func tokenTypeOfLit(lit string) (tok string, value string) {
	switch {
	case lit[0] == '"':
		s, _ := ref.DecodeString([]byte(lit))
		return schema.TokenTypeString, s
	case lit == "true" || lit == "false":
		return schema.TokenTypeBoolean, lit
	case lit == "null":
		return schema.TokenTypeNull, lit
	}
	return schema.TokenTypeNumber, lit
}

// c03SameTree: the example denotes the same value: same decoded keys in the same
// order, same literal texts for numbers/booleans/null, same decoded strings.
func c03SameTree(v gen.JV, got ref.JVal) string {
	switch v.Kind {
	case 'l':
		tok, val := tokenTypeOfLit(v.Lit)
		switch tok {
		case schema.TokenTypeString:
			if got.Kind != 's' || got.Str != val {
				return fmt.Sprintf("string %s became %s", v.Lit, got.String())
			}
		case schema.TokenTypeNumber:
			if got.Kind != 'n' || got.Str != v.Lit {
				return fmt.Sprintf("number %s became %s", v.Lit, got.String())
			}
		default:
			if got.String() != v.Lit {
				return fmt.Sprintf("literal %s became %s", v.Lit, got.String())
			}
		}
	case 'a':
		if got.Kind != 'a' || len(got.Items) != len(v.Items) {
			return fmt.Sprintf("array of %d became %s", len(v.Items), trunc(got.String(), 60))
		}
		for i := range v.Items {
			if d := c03SameTree(v.Items[i], got.Items[i]); d != "" {
				return d
			}
		}
	case 'o':
		if got.Kind != 'o' || len(got.Keys) != len(v.Keys) {
			return fmt.Sprintf("object of %d keys became %s", len(v.Keys), trunc(got.String(), 60))
		}
		for i, k := range v.Keys {
			dk, _ := ref.DecodeString([]byte(k))
			if got.Keys[i] != dk {
				return fmt.Sprintf("key %s became %q", k, got.Keys[i])
			}
			if d := c03SameTree(v.Items[i], got.Items[i]); d != "" {
				return d
			}
		}
	}
	return ""
}

func c03SameAST(v gen.JV, a schema.ASTNode) string {
	switch v.Kind {
	case 'l':
		tok, val := tokenTypeOfLit(v.Lit)
		if a.TokenType != tok || a.Value != val || len(a.Children) != 0 {
			return fmt.Sprintf("literal %s: AST TokenType=%q Value=%q", v.Lit, a.TokenType, a.Value)
		}
	case 'a':
		if a.TokenType != schema.TokenTypeArray || len(a.Children) != len(v.Items) {
			return fmt.Sprintf("array of %d: AST TokenType=%q with %d children", len(v.Items), a.TokenType, len(a.Children))
		}
		for i := range v.Items {
			if d := c03SameAST(v.Items[i], a.Children[i]); d != "" {
				return d
			}
		}
	case 'o':
		if a.TokenType != schema.TokenTypeObject || len(a.Children) != len(v.Keys) {
			return fmt.Sprintf("object of %d: AST TokenType=%q with %d children", len(v.Keys), a.TokenType, len(a.Children))
		}
		for i, k := range v.Keys {
			dk, _ := ref.DecodeString([]byte(k))
			if a.Children[i].Key != dk || a.Children[i].IsKeyShortcut {
				return fmt.Sprintf("key %s: AST Key=%q shortcut=%v", k, a.Children[i].Key, a.Children[i].IsKeyShortcut)
			}
			if d := c03SameAST(v.Items[i], a.Children[i]); d != "" {
				return d
			}
		}
	}
	return ""
}

func keyClass(v gen.JV) string {
	// which kind of key/strings the value contains (discriminator for signatures)
	cls := "plain"
	var walk func(gen.JV)
	walk = func(x gen.JV) {
		for _, k := range x.Keys {
			for i := 0; i < len(k); i++ {
				if k[i] == '\\' {
					cls = "key-with-escape"
				}
			}
		}
		for _, it := range x.Items {
			walk(it)
		}
	}
	walk(v)
	return cls
}

func c03Case(w *core.W, v gen.JV, ws gen.WS) {
	text := v.Render(ws)
	in := []byte(text)
	w.S.Evaluations++
	w.S.Traces++
	w.S.Transitions += 3
	if !stdjson.Valid(in) {
		w.Violate(bv("ENGINE-generator", "json", in, "generated text is not valid JSON", nil))
		return
	}
	s := jschema.New("plain", in)
	var err error
	var ex []byte
	var ast schema.ASTNode
	var e2, e3 error
	if rec, site := guard(func() {
		err = s.Check()
		ex, e2 = s.Example()
		ast, e3 = s.GetAST()
	}); rec != nil {
		w.Violate(bv("no-panic", "json", in, fmt.Sprintf("panic: %v", rec), map[string]string{"site": site}))
		return
	}
	sig := map[string]string{"layout": ws.Name, "keys": keyClass(v)}
	if err != nil {
		w.Violate(bv("accepted-as-schema", "json", in, "plain JSON rejected: "+errStr(err), map[string]string{"layout": ws.Name, "code": fmt.Sprint(errCode(err))}))
		return
	}
	w.S.Nontrivial++
	if e2 != nil {
		w.Violate(bv("example-same-value", "json", in, "Example() failed: "+errStr(e2), sig))
	} else if got, derr := ref.DecodeOrdered(ex); derr != nil {
		w.Violate(bv("example-same-value", "json", in, fmt.Sprintf("Example() is not JSON: %q (%v)", trunc(string(ex), 80), derr), sig))
	} else if d := c03SameTree(v, got); d != "" {
		w.Violate(bv("example-same-value", "json", in, fmt.Sprintf("Example()=%s: %s", trunc(string(ex), 80), d), sig))
	}
	if e3 != nil {
		w.Violate(bv("ast-same-shape", "json", in, "GetAST() failed: "+errStr(e3), sig))
	} else if d := c03SameAST(v, ast); d != "" {
		w.Violate(bv("ast-same-shape", "json", in, d, sig))
	}
}

type c03Wit struct {
	V  gen.JV `json:"v"`
	WS gen.WS `json:"ws"`
}

func init() {
	Register(&Prop{
		ID:        "C03",
		Technique: "bounded exhaustive enumeration of JSON values (depth/width bounded, escape spellings in keys and strings) x whitespace layouts, compared with encoding/json's ordered decoding",
		Rule: "all JSON values of depth <= 2 (thorough 3), width <= 2 over 28 scalar spellings and 15 key spellings (duplicate decoded keys excluded; reduced sets below depth 1) x 6 whitespace/newline layouts; " +
			"Check()==nil, Example() decodes to the same ordered tree, GetAST() has the same shape with decoded keys/values; non-trivial = accepted documents",
		Bounds: func(tier string) map[string]any {
			return map[string]any{"scalars": len(c03Scalars), "keys": len(c03Keys), "layouts": len(gen.JSONLayouts)}
		},
		Run: func(w *core.W) {
			var i int64
			c03Values(w, func(v gen.JV) {
				i++
				if !w.Mine(i) {
					return
				}
				if i&0x3ff == 0 && w.OverBudget() {
					return
				}
				for _, ws := range gen.JSONLayouts {
					c03Case(w, v, ws)
				}
				if i%5000 == 1 {
					w.Sample(v.Render(gen.JSONLayouts[1]))
				}
			})
			if w.Shard == 0 {
				w.S.States += i
				w.Count("values", i)
			}
		},
		Replay: func(w *core.W, v *core.Violation) {
			// the exact text is the witness; the model is recovered by decoding it
			in := inputBytes(v)
			val, err := ref.DecodeOrdered(in)
			if err != nil {
				return
			}
			_ = val
			c03ReplayText(w, in, v.Sig["layout"])
		},
		Assumptions: []string{"encoding/json decides what value a JSON text denotes; exponent-form numbers and duplicate keys are excluded by the statement"},
	})
}

// c03ReplayText re-parses the text into the model (source spellings are recovered
// with a tiny tokenizer) and re-runs the clauses.
func c03ReplayText(w *core.W, in []byte, layout string) {
	v, ok := parseJV(in)
	if !ok {
		return
	}
	ws := gen.JSONLayouts[0]
	for _, l := range gen.JSONLayouts {
		if l.Name == layout {
			ws = l
		}
	}
	c03Case(w, v, ws)
}

// parseJV parses valid JSON text into a gen.JV keeping source spellings.
func parseJV(in []byte) (gen.JV, bool) {
	pos := 0
	skip := func() {
		for pos < len(in) && (in[pos] == ' ' || in[pos] == '\t' || in[pos] == '\n' || in[pos] == '\r') {
			pos++
		}
	}
	var val func() (gen.JV, bool)
	str := func() (string, bool) {
		start := pos
		pos++
		for pos < len(in) {
			if in[pos] == '\\' {
				pos += 2
				continue
			}
			if in[pos] == '"' {
				pos++
				return string(in[start:pos]), true
			}
			pos++
		}
		return "", false
	}
	val = func() (gen.JV, bool) {
		skip()
		if pos >= len(in) {
			return gen.JV{}, false
		}
		switch in[pos] {
		case '{':
			pos++
			o := gen.JV{Kind: 'o'}
			skip()
			if pos < len(in) && in[pos] == '}' {
				pos++
				return o, true
			}
			for {
				skip()
				k, ok := str()
				if !ok {
					return o, false
				}
				skip()
				pos++ // ':'
				v, ok := val()
				if !ok {
					return o, false
				}
				o.Keys = append(o.Keys, k)
				o.Items = append(o.Items, v)
				skip()
				if pos < len(in) && in[pos] == ',' {
					pos++
					continue
				}
				pos++ // '}'
				return o, true
			}
		case '[':
			pos++
			a := gen.JV{Kind: 'a'}
			skip()
			if pos < len(in) && in[pos] == ']' {
				pos++
				return a, true
			}
			for {
				v, ok := val()
				if !ok {
					return a, false
				}
				a.Items = append(a.Items, v)
				skip()
				if pos < len(in) && in[pos] == ',' {
					pos++
					continue
				}
				pos++
				return a, true
			}
		case '"':
			s, ok := str()
			return gen.Lit(s), ok
		}
		start := pos
		for pos < len(in) && in[pos] != ',' && in[pos] != '}' && in[pos] != ']' && in[pos] != ' ' && in[pos] != '\t' && in[pos] != '\n' && in[pos] != '\r' {
			pos++
		}
		return gen.Lit(string(in[start:pos])), pos > start
	}
	return val()
}
