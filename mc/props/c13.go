package props

import (
	"fmt"
	"math/big"
	"regexp"
	"strings"

	jbytes "github.com/jsightapi/jsight-schema-core/bytes"
	jnum "github.com/jsightapi/jsight-schema-core/json"

	"verifmc/core"
	"verifmc/seq"
	"verifmc/state"
)

// C13 — decimal numbers: JSON grammar, exact comparison.

var c13Grammar = regexp.MustCompile(`^-?(0|[1-9][0-9]*)(\.[0-9]+)?([eE][+-]?[0-9]+)?$`)

var c13Tokens = toks(`0`, `1`, `9`, `-`, `.`, `e`, `E`, `+`, `x`)

func c13N(tier string) int {
	if tier == "thorough" {
		return 8
	}
	return 7
}
func c13PairLen(tier string) int {
	if tier == "thorough" {
		return 6
	}
	return 5
}

func init() {
	Register(&Prop{
		ID:        "C13",
		Technique: "bounded exhaustive enumeration of strings over the number alphabet + explicit-state search of the recogniser + all pairs of a small-scope set, compared with regexp (grammar) and math/big.Rat (values)",
		Rule: "grammar: every string of <= N bytes over {0 1 9 - . e E + x}; comparison: all ordered pairs of the grammar-valid strings of length <= L plus a shift grid (mantissas x 10^k, k up to +-4999); " +
			"non-trivial = grammar-valid strings and pairs of them",
		Bounds: func(tier string) map[string]any {
			return map[string]any{"grammar_max_len": c13N(tier), "pair_set_max_len": c13PairLen(tier)}
		},
		Run:    c13Run,
		Replay: c13Replay,
		Assumptions: []string{
			"math/big.Rat arithmetic and Go regexp are correct",
			"exponents beyond +-4999 are exercised for C02 (resource safety), not for comparison",
		},
	})
}

func ratOf(s string) *big.Rat {
	r, ok := new(big.Rat).SetString(s)
	if !ok {
		return nil
	}
	return r
}

// fracLen = least d >= 0 with v*10^d integral.
func fracLen(r *big.Rat) int {
	d := new(big.Int).Set(r.Denom())
	ten := big.NewInt(10)
	v := new(big.Rat).Set(r)
	n := 0
	for !v.IsInt() {
		v.Mul(v, new(big.Rat).SetInt(ten))
		n++
		if n > 20000 {
			return -1
		}
	}
	_ = d
	return n
}

func newNum(s string) (*jnum.Number, error, any, string) {
	var n *jnum.Number
	var err error
	rec, site := guard(func() { n, err = jnum.NewNumber(jbytes.NewBytes(s)) })
	return n, err, rec, site
}

// c13Single: grammar clause + String + LengthOfFractionalPart for one text.
func c13Single(w *core.W, s string, entry string) (*jnum.Number, *big.Rat) {
	w.S.Evaluations++
	w.S.Traces++
	w.S.Transitions += int64(len(s)) + 1
	valid := c13Grammar.MatchString(s)
	n, err, rec, site := newNum(s)
	if rec != nil {
		w.Violate(bv("no-panic", entry, []byte(s), fmt.Sprintf("NewNumber panicked: %v", rec), map[string]string{"site": site}))
		return nil, nil
	}
	acc := err == nil
	shape := c13Shape(s)
	switch {
	case acc && !valid:
		w.Class("accepts-invalid")
		w.Violate(bv("grammar", entry, []byte(s), "accepted, but not a JSON number", map[string]string{"dir": "accepts-invalid", "shape": shape}))
		return nil, nil
	case !acc && valid:
		w.Class("rejects-valid")
		w.Violate(bv("grammar", entry, []byte(s), "rejected: "+errStr(err), map[string]string{"dir": "rejects-valid", "shape": shape}))
		return nil, nil
	case !acc:
		w.Class("reject")
		return nil, nil
	}
	w.Class("accept")
	r := ratOf(s)
	if r == nil {
		w.Violate(bv("ENGINE-oracle", entry, []byte(s), "big.Rat cannot parse a grammar-valid number", nil))
		return nil, nil
	}
	var str string
	var fl uint
	if rec, site := guard(func() { str = n.String(); fl = n.LengthOfFractionalPart() }); rec != nil {
		w.Violate(bv("no-panic", entry, []byte(s), fmt.Sprintf("String/LengthOfFractionalPart panicked: %v", rec), map[string]string{"site": site}))
		return nil, nil
	}
	if r2 := ratOf(str); !c13Grammar.MatchString(str) || r2 == nil || r2.Cmp(r) != 0 {
		w.Violate(bv("string", entry, []byte(s), fmt.Sprintf("String()=%q does not denote the same value", trunc(str, 80)), map[string]string{"shape": shape}))
	}
	// reading a number (printing it, asking for its fraction length) leaves it as it was:
	// the second answer is the first one, and the number still equals a fresh parse
	var str2 string
	var fl2 uint
	var cmpFresh int
	if rec, site := guard(func() {
		str2, fl2 = n.String(), n.LengthOfFractionalPart()
		fresh, _, _, _ := newNum(s)
		cmpFresh = n.Cmp(fresh)
	}); rec != nil {
		w.Violate(bv("no-panic", entry, []byte(s), fmt.Sprintf("second String/Cmp panicked: %v", rec), map[string]string{"site": site}))
		return nil, nil
	}
	if str2 != str || fl2 != fl || cmpFresh != 0 {
		w.Violate(bv("reading-leaves-the-number-intact", entry, []byte(s), fmt.Sprintf("String() gave %q, then %q; fraction length %d, then %d; compared with a fresh parse of the same text afterwards: %d", trunc(str, 40), trunc(str2, 40), fl, fl2, cmpFresh), map[string]string{"shape": shape}))
		return nil, nil
	}
	if want := fracLen(r); want >= 0 && int(fl) != want {
		w.Violate(bv("fraction-length", entry, []byte(s), fmt.Sprintf("LengthOfFractionalPart()=%d, value has %d significant fraction digits", fl, want), map[string]string{"shape": shape}))
	}
	return n, r
}

// c13Shape abstracts a text to its token shape: the integer part is "0" or "d"
// (any other digit string), every other digit run is "d".
func c13Shape(s string) string {
	var b strings.Builder
	i := 0
	for i < len(s) {
		c := s[i]
		if c >= '0' && c <= '9' {
			j := i
			for j < len(s) && s[j] >= '0' && s[j] <= '9' {
				j++
			}
			atInt := i == 0 || (i == 1 && s[0] == '-')
			switch {
			case atInt && j-i == 1 && c == '0':
				b.WriteByte('0')
			case atInt && c == '0':
				b.WriteString("0d")
			default:
				b.WriteByte('d')
			}
			i = j
			continue
		}
		if c == 'E' {
			c = 'e'
		}
		b.WriteByte(c)
		i++
	}
	return b.String()
}

func sign(x int) int {
	switch {
	case x < 0:
		return -1
	case x > 0:
		return 1
	}
	return 0
}

func c13Pair(w *core.W, as, bs string, a, b *jnum.Number, ra, rb *big.Rat, entry string) {
	w.S.Evaluations++
	w.S.Transitions++
	want := ra.Cmp(rb)
	var got int
	var eq, gt, gte, lt, lte bool
	if rec, site := guard(func() {
		got = a.Cmp(b)
		eq, gt, gte, lt, lte = a.Equal(b), a.GreaterThan(b), a.GreaterThanOrEqual(b), a.LessThan(b), a.LessThanOrEqual(b)
	}); rec != nil {
		w.Violate(bv("no-panic", entry, []byte(as+" ? "+bs), fmt.Sprintf("Cmp panicked: %v", rec), map[string]string{"site": site}))
		return
	}
	if sign(got) != want || got != sign(got) {
		kind := "value"
		if ra.Sign() == 0 && rb.Sign() == 0 {
			kind = "zero-vs-zero"
		} else if ra.Sign() == 0 || rb.Sign() == 0 {
			kind = "zero-vs-nonzero"
		}
		w.Violate(bv("cmp", entry, []byte(as+" ? "+bs), fmt.Sprintf("Cmp=%d, exact arithmetic says %d", got, want), map[string]string{"kind": kind, "want": fmt.Sprint(want)}))
		return
	}
	if eq != (want == 0) || gt != (want > 0) || gte != (want >= 0) || lt != (want < 0) || lte != (want <= 0) {
		w.Violate(bv("predicates", entry, []byte(as+" ? "+bs), fmt.Sprintf("Equal=%v GT=%v GTE=%v LT=%v LTE=%v with exact cmp %d", eq, gt, gte, lt, lte, want), nil))
	}
}

type c13Num struct {
	s string
	n *jnum.Number
	r *big.Rat
}

func c13Run(w *core.W) {
	// (1) grammar, exhaustive strings
	N := c13N(w.Tier)
	L := c13PairLen(w.Tier)
	e := &seq.Enum{Tokens: c13Tokens, N: N, W: w}
	var small []string // every shard needs the whole small-scope set
	e.Run(func(s []byte, ntok int, own bool) bool {
		if own {
			c13Single(w, string(s), "seq")
			if c13Grammar.Match(s) {
				w.S.Nontrivial++
			}
		}
		return false
	})
	w.S.States += e.Nodes
	// (2) explicit-state search of the recogniser
	st := &state.Search{W: w, Name: "numberscanner", Symbols: []byte("019-.eE+x"), MaxDepth: 0, MaxLen: 40,
		Key:   jnum.VerifNumberKeyAfter,
		Check: func(in []byte) { c13Single(w, string(in), "state") },
		Verdict: func(in []byte) string {
			_, err := jnum.NewNumber(jbytes.NewBytes(in))
			return fmt.Sprint(err == nil)
		}}
	st.Run()
	// (3) all pairs of the small-scope set (grammar-valid strings of length <= L over the digit alphabet without x)
	var gen func(p []byte)
	alpha := []byte("019-.eE+")
	gen = func(p []byte) {
		if c13Grammar.Match(p) {
			small = append(small, string(p))
		}
		if len(p) == L {
			return
		}
		for _, c := range alpha {
			gen(append(p, c))
		}
	}
	gen(nil)
	// shift grid
	var grid []string
	for _, m := range []string{"1", "9", "10", "1.5", "0.5", "0.05", "123.456", "0", "0.0", "-0", "-1", "-1.50", "100", "0.10"} {
		grid = append(grid, m)
		for _, k := range []int{1, 2, 3, 17, 18, 19, 20, 25, 99, 100, 1000, 4999} {
			grid = append(grid, fmt.Sprintf("%se%d", m, k), fmt.Sprintf("%sE+%d", m, k), fmt.Sprintf("%se-%d", m, k))
		}
		grid = append(grid, m+"e0", m+"E-0", m+"e+00")
	}
	build := func(ss []string, entry string) []c13Num {
		var out []c13Num
		for _, s := range ss {
			n, err, rec, _ := newNum(s)
			if rec != nil || err != nil {
				// reported by the grammar clause (own shard) — cannot take part in pairs
				if w.Shard == 0 && entry == "grid" {
					c13Single(w, s, entry)
				}
				continue
			}
			out = append(out, c13Num{s, n, ratOf(s)})
		}
		return out
	}
	sm := build(small, "small")
	gr := build(grid, "grid")
	if w.Shard == 0 {
		for _, g := range grid {
			c13Single(w, g, "grid")
		}
		w.Count("small_scope_numbers", int64(len(sm)))
		w.Count("grid_numbers", int64(len(gr)))
		w.Sample(map[string]any{"pair": []string{sm[len(sm)/2].s, sm[len(sm)/3].s}})
		w.Sample(map[string]any{"pair": []string{gr[len(gr)/2].s, gr[len(gr)/3].s}})
	}
	var sm4 []c13Num
	for _, x := range sm {
		if len(x.s) <= 4 {
			sm4 = append(sm4, x)
		}
	}
	row := int64(0)
	pairs := func(A, B []c13Num, entry string) {
		for _, a := range A {
			row++
			if !w.Mine(row) {
				continue
			}
			if w.OverBudget() {
				return
			}
			for _, b := range B {
				c13Pair(w, a.s, b.s, a.n, b.n, a.r, b.r, entry)
				w.S.Nontrivial++
			}
		}
	}
	pairs(sm, sm, "pairs-small")
	pairs(gr, gr, "pairs-grid")
	pairs(gr, sm4, "pairs-grid-small")
	pairs(sm4, gr, "pairs-small-grid")
}

func c13Replay(w *core.W, v *core.Violation) {
	in := string(inputBytes(v))
	if i := strings.Index(in, " ? "); i >= 0 {
		as, bs := in[:i], in[i+3:]
		a, e1, r1, _ := newNum(as)
		b, e2, r2, _ := newNum(bs)
		if e1 != nil || e2 != nil || r1 != nil || r2 != nil {
			return
		}
		c13Pair(w, as, bs, a, b, ratOf(as), ratOf(bs), v.Entry)
		return
	}
	c13Single(w, in, v.Entry)
}
