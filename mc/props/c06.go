package props

import (
	stdjson "encoding/json"
	"fmt"
	"strings"

	"github.com/jsightapi/jsight-schema-core/errs"

	"verifmc/core"
)

// C06 — recursion: no false alarms, self-requiring roots reported, Example() ends.

// link: one property of an object type.
type c06Link struct {
	Kind    string   `json:"kind"`    // plain optional nullable array choice scalar
	Targets []string `json:"targets"` // type names (1, or 2 for choice)
	Ann     string   `json:"ann,omitempty"` // a rule written next to a choice that changes nothing (type: "mixed")
}

type c06Graph struct {
	Types map[string][]c06Link `json:"types"` // type name -> properties; "@main" is the root
	// NullRoot: types whose root object carries {nullable: true}: null is an instance,
	// so nothing inside them is mandatory for whoever refers to them.
	NullRoot []string `json:"nullRoot,omitempty"`
	// Bare: types that ARE a reference or a choice (`@a`, `@a | @b`) instead of an
	// object holding one; each has exactly one plain or choice link.
	Bare []string `json:"bare,omitempty"`
	// OptionalKeys: the schemas are created with keys optional by default: a property
	// without a rule is no mandatory link; "required" links say `optional: false`.
	OptionalKeys bool `json:"optionalKeys,omitempty"`
}

func (g *c06Graph) bare(n string) bool {
	for _, x := range g.Bare {
		if x == n {
			return true
		}
	}
	return false
}

func (g *c06Graph) nullRoot(n string) bool {
	for _, x := range g.NullRoot {
		if x == n {
			return true
		}
	}
	return false
}

func (l c06Link) text(key string, comma string) string {
	t := ""
	if len(l.Targets) > 0 {
		t = l.Targets[0]
	}
	switch l.Kind {
	case "plain":
		return fmt.Sprintf("\t%q: %s%s", key, t, comma)
	case "required": // says so itself (the only mandatory link where keys are optional by default)
		return fmt.Sprintf("\t%q: %s%s // {optional: false}", key, t, comma)
	case "optional":
		return fmt.Sprintf("\t%q: %s%s // {optional: true}", key, t, comma)
	case "nullable":
		return fmt.Sprintf("\t%q: %s%s // {nullable: true}", key, t, comma)
	case "array":
		return fmt.Sprintf("\t%q: [\n\t\t%s\n\t]%s", key, t, comma)
	case "choice":
		if l.Ann != "" {
			return fmt.Sprintf("\t%q: %s | %s%s // %s", key, l.Targets[0], l.Targets[1], comma, l.Ann)
		}
		return fmt.Sprintf("\t%q: %s | %s%s", key, l.Targets[0], l.Targets[1], comma)
	case "wrapped": // the reference sits in a mandatory inline object: still a mandatory link
		return fmt.Sprintf("\t%q: {\n\t\t\"n\": %s\n\t}%s", key, t, comma)
	case "wrapped-optional": // the rule is written on the inline object around the reference
		return fmt.Sprintf("\t%q: { // {optional: true}\n\t\t\"n\": %s\n\t}%s", key, t, comma)
	case "wrapped-nullable":
		return fmt.Sprintf("\t%q: { // {nullable: true}\n\t\t\"n\": %s\n\t}%s", key, t, comma)
	}
	return fmt.Sprintf("\t%q: 1%s", key, comma)
}

func c06TypeTextNull(links []c06Link) string {
	t := c06TypeText(links)
	return "{ // {nullable: true}" + t[1:]
}

func c06TypeText(links []c06Link) string {
	var props []string
	for i, l := range links {
		comma := ","
		if i == len(links)-1 {
			comma = ""
		}
		props = append(props, l.text(fmt.Sprintf("p%d", i), comma))
	}
	return "{\n" + strings.Join(props, "\n") + "\n}"
}

func (g *c06Graph) project() *project {
	p := &project{Root: c06TypeText(g.Types["@main"]), Types: map[string]string{}, Self: "@main", OptionalKeys: g.OptionalKeys}
	if g.bare("@main") {
		l := g.Types["@main"][0]
		p.Root = l.Targets[0]
		if l.Kind == "choice" {
			p.Root += " | " + l.Targets[1]
		}
		if g.nullRoot("@main") {
			p.Root += " // {nullable: true}"
		}
	}
	for n, l := range g.Types {
		if n != "@main" {
			if g.bare(n) {
				p.Types[n] = l[0].Targets[0]
				if l[0].Kind == "choice" {
					p.Types[n] += " | " + l[0].Targets[1]
				}
				if g.nullRoot(n) {
					p.Types[n] += " // {nullable: true}"
				}
			} else if g.nullRoot(n) {
				p.Types[n] = c06TypeTextNull(l)
			} else {
				p.Types[n] = c06TypeText(l)
			}
		}
	}
	return p
}

// finite: least fixpoint — a type has a finite instance iff every mandatory link
// (plain, or a choice all of whose alternatives... no: a choice is satisfiable if ANY
// alternative is) leads to a finite type.
func (g *c06Graph) finite() map[string]bool {
	fin := map[string]bool{}
	for changed := true; changed; {
		changed = false
		for n, links := range g.Types {
			if fin[n] {
				continue
			}
			ok := true
			for _, l := range links {
				if g.nullRoot(n) {
					break
				}
				switch {
				case g.OptionalKeys && l.Kind != "required":
					// keys optional by default: only a link that says optional: false is mandatory
				case l.Kind == "plain", l.Kind == "wrapped", l.Kind == "required":
					if !fin[l.Targets[0]] {
						ok = false
					}
				case l.Kind == "choice":
					if !fin[l.Targets[0]] && !fin[l.Targets[1]] {
						ok = false
					}
				}
			}
			if ok {
				fin[n] = true
				changed = true
			}
		}
	}
	return fin
}

// selfRequiring: the root reaches itself through mandatory plain links only.
func (g *c06Graph) selfRequiring() bool {
	seen := map[string]bool{}
	var dfs func(n string) bool
	dfs = func(n string) bool {
		if g.nullRoot(n) {
			return false
		}
		for _, l := range g.Types[n] {
			if l.Kind != "plain" && l.Kind != "wrapped" && l.Kind != "required" {
				continue
			}
			if g.OptionalKeys && l.Kind != "required" {
				continue
			}
			t := l.Targets[0]
			if t == "@main" {
				return true
			}
			if !seen[t] {
				seen[t] = true
				if dfs(t) {
					return true
				}
			}
		}
		return false
	}
	return dfs("@main")
}

func c06Case(w *core.W, g *c06Graph, entry string) {
	w.S.Evaluations++
	w.S.Traces++
	w.S.Transitions += 2
	p := g.project()
	wit, _ := stdjson.Marshal(g)
	in := p.describe()
	var err error
	var ex []byte
	var exErr error
	rec, site := guard(func() {
		root, berr := buildProject(p)
		if berr != nil {
			err = berr
			return
		}
		err = root.Check()
		if err == nil {
			ex, exErr = root.Example()
		}
	})
	fail := func(clause, detail string, sig map[string]string) {
		w.Violate(core.Violation{Clause: clause, Entry: entry, Input: in, Witness: wit, Detail: detail, Sig: sig})
	}
	if rec != nil {
		fail("no-panic", fmt.Sprintf("%v", rec), map[string]string{"site": site})
		return
	}
	code := errCode(err)
	fin := g.finite()["@main"]
	self := g.selfRequiring()
	w.Class(fmt.Sprintf("finite=%v self=%v code=%d", fin, self, code))
	if fin || self {
		w.S.Nontrivial++
	}
	cyc := "n/a"
	if self {
		cyc = fmt.Sprint(g.cycleLen())
	}
	if fin && code == int(errs.ErrInfiniteRecursionDetected) {
		fail("no-false-alarm", "root has a finite instance, yet: "+errStr(err), map[string]string{"kinds": g.kinds()})
	}
	if self && code != int(errs.ErrInfiniteRecursionDetected) {
		fail("self-requiring-root-reported", fmt.Sprintf("root requires itself through plain links (cycle length %s), Check(): %s", cyc, errStr(err)), map[string]string{"cycle": cyc})
	}
	if err == nil {
		if exErr != nil {
			fail("example-is-json", "Example() failed on an accepted schema: "+errStr(exErr), nil)
		} else if !stdjson.Valid(ex) {
			how := "other"
			if strings.Contains(string(ex), ",}") || strings.Contains(string(ex), ",]") {
				how = "dangling-comma"
			}
			fail("example-is-json", fmt.Sprintf("Example() is not JSON: %s", trunc(string(ex), 120)), map[string]string{"how": how})
		}
	}
}

func (g *c06Graph) kinds() string {
	set := map[string]bool{}
	for _, ls := range g.Types {
		for _, l := range ls {
			set[l.Kind] = true
		}
	}
	var out []string
	for _, k := range []string{"plain", "optional", "nullable", "array", "choice", "scalar", "wrapped", "wrapped-optional", "wrapped-nullable"} {
		if set[k] {
			out = append(out, k)
		}
	}
	return strings.Join(out, "+")
}

// cycleLen: length of the shortest plain-link cycle through the root.
func (g *c06Graph) cycleLen() int {
	dist := map[string]int{"@main": 0}
	queue := []string{"@main"}
	for len(queue) > 0 {
		n := queue[0]
		queue = queue[1:]
		if g.nullRoot(n) {
			continue
		}
		for _, l := range g.Types[n] {
			if l.Kind != "plain" && l.Kind != "wrapped" && l.Kind != "required" {
				continue
			}
			if g.OptionalKeys && l.Kind != "required" {
				continue
			}
			t := l.Targets[0]
			if t == "@main" {
				return dist[n] + 1
			}
			if _, ok := dist[t]; !ok {
				dist[t] = dist[n] + 1
				queue = append(queue, t)
			}
		}
	}
	return 0
}

func c06LinkOptions(names []string) []c06Link {
	var out []c06Link
	out = append(out, c06Link{Kind: "scalar"})
	for _, k := range []string{"plain", "optional", "nullable", "array"} {
		for _, n := range names {
			out = append(out, c06Link{Kind: k, Targets: []string{n}})
		}
	}
	for _, a := range names {
		for _, b := range names {
			out = append(out, c06Link{Kind: "choice", Targets: []string{a, b}})
		}
	}
	return out
}

func c06Run(w *core.W) {
	names := []string{"@main", "@a", "@b"}
	opts := c06LinkOptions(names)
	// property sets: every single property and every ordered pair
	var full [][]c06Link
	for _, a := range opts {
		full = append(full, []c06Link{a})
	}
	for _, a := range opts {
		for _, b := range opts {
			full = append(full, []c06Link{a, b})
		}
	}
	// reduced list for the non-root types (quick): all single properties + pairs
	// (plain|choice first property) x (scalar|plain|optional second property)
	var reduced [][]c06Link
	for _, a := range opts {
		reduced = append(reduced, []c06Link{a})
	}
	for _, a := range opts {
		if a.Kind != "plain" && a.Kind != "choice" {
			continue
		}
		for _, b := range opts {
			if b.Kind == "scalar" || (b.Kind == "plain" && b.Targets[0] != a.Targets[0]) || (b.Kind == "optional" && b.Targets[0] == "@main") {
				reduced = append(reduced, []c06Link{a, b})
			}
		}
	}
	others := reduced
	if w.Thorough() {
		others = full
	}
	var i int64
	for _, m := range full {
		for _, a := range others {
			i++
			if !w.Mine(i) {
				continue
			}
			if w.OverBudget() {
				return
			}
			for _, b := range others {
				g := &c06Graph{Types: map[string][]c06Link{"@main": m, "@a": a, "@b": b}}
				c06Case(w, g, "graphs")
			}
		}
	}
	if w.Shard == 0 {
		w.Count("graphs.root_forms", int64(len(full)))
		w.Count("graphs.other_forms", int64(len(others)))
	}
	// F2: chains @main -> t1 -> ... -> tk -> @main with every mix of link kinds
	maxK := 4
	if w.Thorough() {
		maxK = 5
	}
	kinds := []string{"plain", "optional", "nullable", "array", "choice-self", "choice-finite", "wrapped", "wrapped-optional", "wrapped-nullable"}
	var j int64
	for k := 0; k <= maxK; k++ {
		chain := []string{"@main"}
		for t := 1; t <= k; t++ {
			chain = append(chain, fmt.Sprintf("@t%d", t))
		}
		n := len(chain)
		total := 1
		for x := 0; x < n; x++ {
			total *= len(kinds)
		}
		for code := 0; code < total; code++ {
			j++
			if !w.Mine(j) {
				continue
			}
			for extra := 0; extra < 2; extra++ {
				g := &c06Graph{Types: map[string][]c06Link{"@fin": {{Kind: "scalar"}}}}
				c := code
				for x := 0; x < n; x++ {
					kd := kinds[c%len(kinds)]
					c /= len(kinds)
					next := chain[(x+1)%n]
					var l c06Link
					switch kd {
					case "choice-self":
						l = c06Link{Kind: "choice", Targets: []string{next, chain[x]}}
					case "choice-finite":
						l = c06Link{Kind: "choice", Targets: []string{next, "@fin"}}
					default:
						l = c06Link{Kind: kd, Targets: []string{next}}
					}
					links := []c06Link{l}
					if extra == 1 {
						links = []c06Link{{Kind: "scalar"}, l}
					}
					g.Types[chain[x]] = links
				}
				c06Case(w, g, "chains")
				// the same graph in schemas whose keys are optional by default: nothing is a
				// mandatory link; and with every plain link saying `optional: false`
				if k <= 2 {
					c06Case(w, &c06Graph{Types: g.Types, OptionalKeys: true}, "chains-optional-keys")
					g3 := &c06Graph{Types: map[string][]c06Link{}, OptionalKeys: true}
					for n, ls := range g.Types {
						for _, l := range ls {
							if l.Kind == "plain" {
								l.Kind = "required"
							}
							g3.Types[n] = append(g3.Types[n], l)
						}
					}
					c06Case(w, g3, "chains-optional-keys")
				}
				// the same graph with the redundant rule type: "mixed" spelled out on every choice
				if k <= 3 {
					g2 := &c06Graph{Types: map[string][]c06Link{}}
					any := false
					for n, ls := range g.Types {
						for _, l := range ls {
							if l.Kind == "choice" {
								l.Ann = `{type: "mixed"}`
								any = true
							}
							g2.Types[n] = append(g2.Types[n], l)
						}
					}
					if any {
						c06Case(w, g2, "chains-mixed")
					}
				}
			}
		}
	}
	// F3: rules written on an inline object around the reference, and types whose root
	// object is nullable as a whole
	var wopts []c06Link
	wopts = append(wopts, c06Link{Kind: "scalar"})
	for _, k := range []string{"plain", "optional", "wrapped", "wrapped-optional", "wrapped-nullable"} {
		for _, n := range []string{"@main", "@a"} {
			wopts = append(wopts, c06Link{Kind: k, Targets: []string{n}})
		}
	}
	for _, a := range []string{"@main", "@a"} {
		for _, b := range []string{"@main", "@a"} {
			wopts = append(wopts, c06Link{Kind: "choice", Targets: []string{a, b}})
		}
	}
	var wforms [][]c06Link
	for _, a := range wopts {
		wforms = append(wforms, []c06Link{a})
		for _, b := range wopts {
			wforms = append(wforms, []c06Link{a, b})
		}
	}
	var f3 int64
	for _, m := range wforms {
		for _, a := range wforms {
			f3++
			if !w.Mine(f3) {
				continue
			}
			if f3&0xff == 0 && w.OverBudget() {
				return
			}
			c06Case(w, &c06Graph{Types: map[string][]c06Link{"@main": m, "@a": a}}, "wrapped")
			c06Case(w, &c06Graph{Types: map[string][]c06Link{"@main": m, "@a": a}, NullRoot: []string{"@a"}}, "wrapped")
		}
	}
	if w.Shard == 0 {
		w.Count("wrapped.graphs", f3*2)
	}
	// F4: types that are themselves a reference or a choice
	names4 := []string{"@main", "@a", "@b", "@fin"}
	var bareForms, objForms [][]c06Link
	for _, x := range names4 {
		bareForms = append(bareForms, []c06Link{{Kind: "plain", Targets: []string{x}}})
		for _, y := range names4 {
			if x != y {
				bareForms = append(bareForms, []c06Link{{Kind: "choice", Targets: []string{x, y}}})
			}
		}
	}
	for _, k := range []string{"plain", "optional", "array"} {
		for _, x := range names4 {
			objForms = append(objForms, []c06Link{{Kind: k, Targets: []string{x}}})
		}
	}
	for _, x := range names4 {
		for _, y := range names4 {
			objForms = append(objForms, []c06Link{{Kind: "choice", Targets: []string{x, y}}})
		}
	}
	var f4 int64
	for _, m := range objForms {
		for _, a := range bareForms {
			for bi, b := range append(append([][]c06Link{}, bareForms...), objForms...) {
				f4++
				if !w.Mine(f4) {
					continue
				}
				g := &c06Graph{Types: map[string][]c06Link{"@main": m, "@a": a, "@b": b, "@fin": {{Kind: "scalar"}}}, Bare: []string{"@a"}}
				if bi < len(bareForms) {
					g.Bare = append(g.Bare, "@b")
				}
				c06Case(w, g, "bare-types")
				// a bare type that is nullable as a whole: null ends whatever it refers to
				c06Case(w, &c06Graph{Types: g.Types, Bare: g.Bare, NullRoot: []string{"@a"}}, "bare-types-nullable")
			}
		}
	}
	// ... and a root that is one
	for _, m := range bareForms {
		if m[0].Targets[0] == "@main" || (m[0].Kind == "choice" && m[0].Targets[1] == "@main") {
			continue // the root schema itself is not registered under a name here
		}
		for _, a := range append(append([][]c06Link{}, bareForms...), objForms...) {
			for bi, b := range append(append([][]c06Link{}, bareForms...), objForms...) {
				f4++
				if !w.Mine(f4) {
					continue
				}
				g := &c06Graph{Types: map[string][]c06Link{"@main": m, "@a": a, "@b": b, "@fin": {{Kind: "scalar"}}}, Bare: []string{"@main"}}
				if len(a) == 1 && (a[0].Kind == "plain" || a[0].Kind == "choice") && f4%2 == 0 {
					g.Bare = append(g.Bare, "@a")
				}
				if bi < len(bareForms) {
					g.Bare = append(g.Bare, "@b")
				}
				c06Case(w, g, "bare-types")
				if g.bare("@a") {
					c06Case(w, &c06Graph{Types: g.Types, Bare: g.Bare, NullRoot: []string{"@a"}}, "bare-types-nullable")
				}
			}
		}
	}
	// ... and a nullable root that is one, its own type included
	for _, m := range bareForms {
		for _, a := range bareForms {
			f4++
			if !w.Mine(f4) {
				continue
			}
			for _, nr := range [][]string{{"@main"}, {"@main", "@a"}, {"@a"}} {
				c06Case(w, &c06Graph{Types: map[string][]c06Link{"@main": m, "@a": a, "@b": {{Kind: "plain", Targets: []string{"@a"}}}, "@fin": {{Kind: "scalar"}}}, Bare: []string{"@main", "@a"}, NullRoot: nr}, "bare-types-nullable")
			}
		}
	}
	if w.Shard == 0 {
		w.Count("bare.graphs", f4)
	}
	if w.Shard == 0 {
		w.S.States += i*int64(len(others)) + j*2 + f3*2 + f4
		w.Count("chains", j*2)
		w.Sample((&c06Graph{Types: map[string][]c06Link{"@main": full[30], "@a": others[5], "@b": others[9]}}).project().describe())
	}
}

func init() {
	Register(&Prop{
		ID:        "C06",
		Technique: "bounded exhaustive enumeration of type-reference graphs (3 object types x property sets with every link kind; chains up to length 7 with every mix of link kinds), judged by a least-fixpoint reference for 'has a finite instance' and a reachability reference for 'requires itself'",
		Rule:      "F1: @main, @a, @b each an object with 1-2 properties, each property one of {scalar; plain/optional/nullable/array link to one of the 3 types; choice of two types}: all 650 root forms x reduced (thorough: all) forms of the other two; F2: chains @main->t1..tk->@main, k<=4 (thorough 6), each link from 6 kinds, with/without an extra scalar property, and for k<=3 with type: \"mixed\" spelled out on every choice, for k<=2 in schemas whose keys are optional by default (plain links as written and with optional: false); clauses: finite(root) => not 104; root reaches itself via plain links => 104; accepted => Example() returns RFC 8259 JSON; non-trivial = graphs where a clause applies",
		Bounds: func(tier string) map[string]any {
			return map[string]any{"types": 3, "max_chain": map[string]int{"quick": 5, "thorough": 7}[tier]}
		},
		Run: c06Run,
		Replay: func(w *core.W, v *core.Violation) {
			var g c06Graph
			if stdjson.Unmarshal(v.Witness, &g) == nil {
				c06Case(w, &g, v.Entry)
			}
		},
		Assumptions: []string{
			"the root is registered as @main (file name @main) as the repository's own tests do",
			"nothing is claimed for roots that are infinite only through a cycle that does not contain the root",
		},
	})
}
