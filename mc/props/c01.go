package props

import (
	"unicode/utf8"
	"sort"
	stdjson "encoding/json"
	"fmt"
	"math/big"
	"regexp"
	"strings"

	"verifmc/core"
	"verifmc/ref"
)

// C01 — Check() verdict = rule semantics applied to the example values.
//
// A "typed value" is an example literal plus a rule set. The reference decides
// (three-valued) whether the literal satisfies the rule set; the typed value is then
// placed in 8 positions (root, property, item, referenced type ...) and the
// project's Check() verdict is compared with the reference.

type tv struct {
	Lit     string   `json:"lit"`
	Rules   []string `json:"rules"`   // rule source texts "name: value", in order
	Witness string   `json:"witness"` // a literal that satisfies the rule set (for positions where the type needs a valid own example)
	Family  string   `json:"family"`
}

type verdict int

const (
	noClaim verdict = iota
	accept
	reject
)

func (v verdict) String() string { return [...]string{"no-claim", "accept", "reject"}[v] }

func litKind(lit string) string {
	switch {
	case lit == "null":
		return "null"
	case lit == "true" || lit == "false":
		return "boolean"
	case strings.HasPrefix(lit, `"`):
		return "string"
	case strings.ContainsAny(lit, "."):
		return "float"
	}
	return "integer"
}

func ratLit(lit string) *big.Rat {
	r, _ := new(big.Rat).SetString(lit)
	return r
}

func fractionDigits(lit string) (written int, significant int) {
	i := strings.IndexByte(lit, '.')
	if i < 0 {
		return 0, 0
	}
	f := lit[i+1:]
	return len(f), len(strings.TrimRight(f, "0"))
}

type ruleKV struct{ name, val string }

func parseRules(rs []string) []ruleKV {
	var out []ruleKV
	for _, r := range rs {
		i := strings.Index(r, ":")
		out = append(out, ruleKV{strings.TrimSpace(r[:i]), strings.TrimSpace(r[i+1:])})
	}
	return out
}

// satisfies: the reference meaning of the rules, applied to one literal.
func satisfies(lit string, rules []string) verdict {
	kv := parseRules(rules)
	get := func(n string) (string, bool) {
		for _, r := range kv {
			if r.name == n {
				return r.val, true
			}
		}
		return "", false
	}
	kind := litKind(lit)
	if v, ok := get("nullable"); ok && v == "true" && lit == "null" {
		// null satisfies a nullable element whatever value rules (enum, const) stand
		// next to it, before or after
		settled := true
		for _, r := range kv {
			switch r.name {
			case "nullable", "optional", "enum", "const":
			case "type":
				if r.val != `"any"` && r.val != `"null"` {
					settled = false
				}
			default:
				settled = false
			}
		}
		if settled {
			return accept
		}
		return noClaim // nullable together with a type/or/reference on a null example: not settled by the statement
	}
	res := accept
	for _, r := range kv {
		switch r.name {
		case "nullable", "optional":
		case "const":
			// the value is fixed to the example itself
		case "type":
			t, _ := ref.DecodeString([]byte(r.val))
			switch t {
			case "any":
			case "integer":
				if kind != "integer" {
					res = reject
				}
			case "float":
				if kind == "integer" {
					return noClaim // an integer literal against a float-typed rule set: not settled
				}
				if kind != "float" {
					res = reject
				}
			case "decimal":
				if kind != "float" {
					if kind == "integer" {
						return noClaim
					}
					res = reject
				}
			case "string", "boolean", "null":
				if kind != t {
					res = reject
				}
			case "email", "uri", "uuid", "date", "datetime":
				if kind != "string" {
					res = reject
					break
				}
				s, _ := ref.DecodeString([]byte(lit))
				switch formatVerdict(t, s) {
				case reject:
					res = reject
				case noClaim:
					return noClaim
				}
			default:
				return noClaim
			}
		case "min", "max":
			if kind != "integer" && kind != "float" {
				return noClaim
			}
			b := ratLit(r.val)
			v := ratLit(lit)
			c := v.Cmp(b)
			excl := false
			if r.name == "min" {
				if e, ok := get("exclusiveMinimum"); ok && e == "true" {
					excl = true
				}
				if c < 0 || (excl && c == 0) {
					res = reject
				}
			} else {
				if e, ok := get("exclusiveMaximum"); ok && e == "true" {
					excl = true
				}
				if c > 0 || (excl && c == 0) {
					res = reject
				}
			}
		case "exclusiveMinimum", "exclusiveMaximum":
		case "precision":
			if kind != "float" {
				return noClaim
			}
			var p int
			fmt.Sscan(r.val, &p)
			written, sig := fractionDigits(lit)
			switch {
			case sig > p:
				res = reject
			case written > p:
				return noClaim // only trailing zeros exceed the precision
			}
		case "minLength", "maxLength":
			if kind != "string" {
				return noClaim
			}
			s, _ := ref.DecodeString([]byte(lit))
			var n int
			fmt.Sscan(r.val, &n)
			if r.name == "minLength" && utf8.RuneCountInString(s) < n {
				res = reject
			}
			if r.name == "maxLength" && utf8.RuneCountInString(s) > n {
				res = reject
			}
		case "regex":
			if kind != "string" {
				return noClaim
			}
			s, _ := ref.DecodeString([]byte(lit))
			pat, _ := ref.DecodeString([]byte(r.val))
			re, err := regexp.Compile(pat)
			if err != nil {
				return noClaim
			}
			if !re.MatchString(s) {
				res = reject
			}
		case "enum":
			list, err := ref.ParseRuleValue(r.val)
			if err != nil || list.Kind != 'a' {
				return noClaim
			}
			found := false
			for _, it := range list.Items {
				if enumSame(lit, it) {
					found = true
				}
			}
			if !found {
				res = reject
			}
		default:
			return noClaim
		}
	}
	return res
}

func enumSame(lit string, it ref.RV) bool {
	switch it.Kind {
	case 's':
		s, ok := ref.DecodeString([]byte(lit))
		return litKind(lit) == "string" && ok && s == it.Text
	default:
		return lit == it.Text
	}
}

// formatTable: strings whose verdict is clear-cut from the format's defining RFC;
// spellings on which reasonable implementations differ (URN / braced / bare-hex
// UUIDs, host names without a dot, a space between date and time) are listed with
// noClaim so that the code paths are still crossed (panics and malformed errors are
// C02's and C16's business).
var formatTable = map[string]map[string]verdict{
	"email": {"a@b.cc": accept, "john.doe@example.com": accept, "a+tag@b.cc": accept, "ab": reject, "": reject, "a b": reject,
		"<a@b.cc>": reject, "Bob <a@b.cc>": reject, " a@b.cc": reject, "a@b.cc ": reject, "a@": reject, "@b.cc": reject, "a@b@c.cc": reject, "a@b": noClaim,
		// blanks other than a space, a display name written as a trailing comment
		"a@b.cc\t": reject, "\ta@b.cc": reject, "a@b.cc\n": reject, "a@b.cc (Bob)": reject, "Bob <a@b.cc>\t": reject},
	"uri": {"http://x.y/z": accept, "https://example.com": accept, "ftp://x.y/z?q=1#f": accept, "ab": reject, "": reject, "http://x y": reject, "mailto:a@b.cc": noClaim, "//x.y": noClaim,
		// RFC 3986: a URI has a scheme (a path alone is a relative reference), may end in a fragment, holds no blanks
		"/foo": reject, "*": reject, "http://a/b c": reject, "http://a/b\tc": reject, "http://example.org#top": accept, "http://example.org/#top": accept, "http://example.org?q=1": accept, "urn:isbn:0451450523": accept},
	"uuid": {"550e8400-e29b-41d4-a716-446655440000": accept, "550E8400-E29B-41D4-A716-446655440000": accept, "ab": reject, "550e8400-e29b-41d4-a716-44665544000": reject, "": reject,
		"550e8400-e29b-41d4-a716_446655440000": reject, "550e8400-e29b-41d4-a716-44665544000g": reject, "g50e8400-e29b-41d4-a716-446655440000": reject,
		"550e8400e29b41d4a716446655440g00": reject, "urx:uuid:550e8400-e29b-41d4-a716-446655440000": reject, "{550e8400-e29b-41d4-a716-446655440000x": reject, "x550e8400-e29b-41d4-a716-446655440000}": reject,
		"urn:uuid:550e8400-e29b-41d4-a716-446655440000": noClaim, "URN:UUID:550e8400-e29b-41d4-a716-446655440000": noClaim, "{550e8400-e29b-41d4-a716-446655440000}": noClaim, "550e8400e29b41d4a716446655440000": noClaim},
	"date": {"2021-01-02": accept, "2020-02-29": accept, "2021-02-30": reject, "2021-1-2": reject, "ab": reject, "": reject, "2021-13-01": reject, "2021-00-10": reject, "2021-01-02 ": reject, "2021-02-29": reject, "2021/01/02": reject},
	"datetime": {"2021-01-02T07:23:12+03:00": accept, "2021-01-02T07:23:12Z": accept, "2021-01-02T07:23:12.123Z": accept, "2021-01-02": reject, "ab": reject, "": reject,
		"2021-01-02T07:23:12": reject, "2021-01-02T25:00:00Z": reject, "2021-01-02T07:23:12+0300": reject, "2021-02-30T07:23:12Z": reject, "2021-01-02 07:23:12Z": noClaim,
		// RFC 3339 section 5.6: any number of fraction digits, numeric zero offsets, two-digit fields, offsets within 23:59
		"2021-01-08T12:50:45.000Z": accept, "2021-01-08T12:50:45.120Z": accept, "2021-01-08T12:50:45.10+06:00": accept, "2021-01-08T12:50:45+00:00": accept, "2021-01-08T12:50:45-00:00": accept,
		"2021-01-08T12:50:45.123456789-11:30": accept, "2021-01-08T00:00:00Z": accept, "2021-01-08T23:59:59Z": accept,
		"2021-01-08T3:11:44Z": reject, "2021-01-08T23:11:44,123Z": reject, "2021-01-08T23:11:44+24:00": reject, "2021-01-08T23:11:44+23:60": reject, "2021-01-08T23:60:44Z": reject, "2021-01-08T23:11:4Z": reject,
		"1990-12-31T23:59:60Z": noClaim, "2021-01-08t01:02:03z": noClaim},
}

func formatVerdict(t, s string) verdict {
	if v, ok := formatTable[t][s]; ok {
		return v
	}
	return noClaim
}

// ---------------------------------------------------------------- positions

// c01DeepPositions (thorough tier): the rule sits one level further inside a registered type.
var c01DeepPositions = []string{"property-of-type", "item-of-type", "type-rule-in-type", "or-types-in-item", "or-rulesets-in-type"}

var c01Positions = []string{"root", "property", "item", "type-shortcut", "type-rule", "or-types", "or-diamond", "or-rulesets", "type-of-type", "or-rulesets+other-inline-or", "type-rule-to-or-rulesets"}

func ann(rules []string) string {
	if len(rules) == 0 {
		return ""
	}
	return " // {" + strings.Join(rules, ", ") + "}"
}

// place builds the project for a typed value in a position and returns the
// reference verdict for the whole project.
func place(t tv, pos string) (*project, verdict) {
	self := satisfies(t.Lit, t.Rules)
	wit := satisfies(t.Witness, t.Rules)
	node := t.Lit + ann(t.Rules)
	typ := t.Witness + ann(t.Rules)
	isNum := func(k string) bool { return k == "integer" || k == "float" }
	needWitness := func(v verdict) verdict {
		// positions where a registered type carries its own example: that example is
		// the witness and must itself be fine
		if wit != accept {
			return noClaim
		}
		// the type's kind is that of its own example: integer vs float literals are
		// kept apart by the language, so mixed numeric kinds carry no claim
		if lk, wk := litKind(t.Lit), litKind(t.Witness); isNum(lk) && isNum(wk) && lk != wk {
			return noClaim
		}
		return v
	}
	// const: true fixes the value to the example of the element that carries the rule;
	// in a type that example is the witness
	if c, ok := ruleValue(t.Rules, "const"); ok && c == "true" && t.Lit != t.Witness && self == accept {
		switch pos {
		case "type-rule", "type-rule-in-type":
			self = reject
		case "or-types", "or-types-in-item":
			if litKind(t.Lit) != "boolean" {
				self = reject
			}
		case "or-diamond":
			if k := litKind(t.Lit); k != "boolean" && k != "null" {
				self = reject
			}
		}
	}
	switch pos {
	case "root":
		return &project{Root: node}, self
	case "property":
		return &project{Root: "{\n\t\"k\": " + node + "\n}"}, self
	case "item":
		return &project{Root: "[\n\t" + node + "\n]"}, self
	case "type-shortcut":
		return &project{Root: "@t", Types: map[string]string{"@t": node}}, self
	case "type-of-type":
		return &project{Root: "@t", Types: map[string]string{"@t": "{\n\t\"k\": @u\n}", "@u": node}}, self
	case "type-rule":
		return &project{Root: t.Lit + ` // {type: "@t"}`, Types: map[string]string{"@t": typ}}, needWitness(self)
	case "or-types":
		v := self
		if litKind(t.Lit) == "boolean" {
			v = accept // the other alternative is a boolean type
		}
		return &project{Root: t.Lit + ` // {or: ["@t", "@u"]}`, Types: map[string]string{"@t": typ, "@u": "true"}}, needWitness(v)
	case "or-diamond":
		// the value's type comes last, after an alternative that is itself a choice
		// over the next alternative (which is thus met twice) and another scalar type
		v := self
		if k := litKind(t.Lit); k == "boolean" || k == "null" {
			v = accept // @u / @x take it
		}
		return &project{Root: t.Lit + ` // {or: ["@a", "@u", "@t"]}`, Types: map[string]string{"@a": "@u | @x", "@u": "true", "@x": "null", "@t": typ}}, needWitness(v)
	case "or-rulesets":
		// inline rule sets need an explicit type; nullable/optional/const/enum are not allowed inside
		rs := ruleSetFor(t)
		if rs == "" {
			return nil, noClaim
		}
		v := self
		if litKind(t.Lit) == "boolean" {
			v = accept
		}
		return &project{Root: t.Lit + ` // {or: [` + rs + `, {type: "boolean"}]}`}, v
	case "type-rule-to-or-rulesets":
		// the referenced type's own example carries the inline alternatives: the value
		// that refers to the type is judged by them, not the type's example
		rs := ruleSetFor(tv{Lit: t.Witness, Rules: t.Rules, Witness: t.Witness})
		if rs == "" {
			return nil, noClaim
		}
		v := self
		if litKind(t.Lit) == "boolean" {
			v = accept
		}
		if c, ok := ruleValue(t.Rules, "const"); ok && c == "true" && t.Lit != t.Witness && litKind(t.Lit) != "boolean" {
			v = reject
		}
		return &project{Root: t.Lit + ` // {type: "@t"}`, Types: map[string]string{"@t": t.Witness + ` // {or: [` + rs + `, {type: "boolean"}]}`}}, needWitness(v)
	case "property-of-type":
		return &project{Root: "@t", Types: map[string]string{"@t": "{\n\t\"k\": " + node + "\n}"}}, self
	case "item-of-type":
		return &project{Root: "{\n\t\"x\": @t\n}", Types: map[string]string{"@t": "[\n\t" + node + "\n]"}}, self
	case "type-rule-in-type":
		return &project{Root: "@v", Types: map[string]string{"@v": "{\n\t\"k\": " + t.Lit + ` // {type: "@t"}` + "\n}", "@t": typ}}, needWitness(self)
	case "or-types-in-item":
		v := self
		if litKind(t.Lit) == "boolean" {
			v = accept
		}
		return &project{Root: "[\n\t" + t.Lit + ` // {or: ["@t", "@u"]}` + "\n]", Types: map[string]string{"@t": typ, "@u": "true"}}, needWitness(v)
	case "or-rulesets-in-type":
		rs := ruleSetFor(t)
		if rs == "" {
			return nil, noClaim
		}
		v := self
		if litKind(t.Lit) == "boolean" {
			v = accept
		}
		return &project{Root: "{\n\t\"x\": @t\n}", Types: map[string]string{"@t": "{\n\t\"k\": " + t.Lit + ` // {or: [` + rs + `, {type: "boolean"}]}` + "\n}"}}, v
	case "or-rulesets+other-inline-or":
		// the same, next to registered but unreferenced types that carry inline `or`
		// alternatives of their own (separately loaded schemas must not mix them up)
		rs := ruleSetFor(t)
		if rs == "" {
			return nil, noClaim
		}
		v := self
		if litKind(t.Lit) == "boolean" {
			v = accept
		}
		return &project{Root: t.Lit + ` // {or: [` + rs + `, {type: "boolean"}]}`, Types: map[string]string{
			"@x1": `1 // {or: [{type: "integer", min: -1000000}, {type: "float"}]}`,
			"@x2": `"s" // {or: [{type: "string", minLength: 0}, {type: "null"}]}`,
		}}, v
	}
	return nil, noClaim
}

// c01Combined: t with one more rule that is independent of those it has.
func c01Combined(t tv) []tv {
	if len(t.Rules) == 0 || len(t.Rules) > 3 || hasRule(t.Rules, "type") || hasRule(t.Rules, "enum") || hasRule(t.Rules, "const") || hasRule(t.Rules, "nullable") {
		return nil
	}
	k := litKind(t.Lit)
	if k != litKind(t.Witness) || k == "null" {
		return nil
	}
	if hasRule(t.Rules, "precision") {
		k = "decimal"
	}
	var out []tv
	with := func(rules []string, fam string) {
		out = append(out, tv{Lit: t.Lit, Rules: rules, Witness: t.Witness, Family: t.Family + "+" + fam})
	}
	ty := `type: "` + k + `"`
	with(append([]string{ty}, t.Rules...), "type-first")
	with(append(append([]string{}, t.Rules...), ty), "type-last")
	return out
}

func ruleValue(rules []string, name string) (string, bool) {
	for _, r := range parseRules(rules) {
		if r.name == name {
			return r.val, true
		}
	}
	return "", false
}

func hasRule(rules []string, name string) bool {
	for _, r := range parseRules(rules) {
		if r.name == name {
			return true
		}
	}
	return false
}

// ruleSetFor renders the rules as an `or` rule-set with an explicit type.
func ruleSetFor(t tv) string {
	for _, r := range parseRules(t.Rules) {
		switch r.name {
		case "nullable", "optional", "enum":
			return ""
		}
	}
	rules := t.Rules
	if !hasRule(rules, "type") {
		k := litKind(t.Witness)
		if lk := litKind(t.Lit); (lk == "integer" || lk == "float") && (k == "integer" || k == "float") {
			k = lk
		}
		if hasRule(rules, "precision") {
			k = "decimal"
		}
		rules = append([]string{`type: "` + k + `"`}, rules...)
	}
	return "{" + strings.Join(rules, ", ") + "}"
}

// ---------------------------------------------------------------- families

var c01Nums = []string{"-10", "-1.1", "-1", "-0.5", "-0.10", "-0", "0", "0.0", "0.1", "0.10", "0.5", "1", "1.0", "1.5", "1.25", "1.250", "2", "9.99", "10", "12.5", "12.50"}
var c01NumsQuick = []string{"-1.1", "-1", "-0", "0", "0.0", "0.10", "1", "1.0", "1.5", "1.250", "2"}
// strings incl. escapes and non-ASCII characters: a length is a number of characters
// (the rule is exported 1:1 as OpenAPI minLength / maxLength, which count characters)
var c01Strings = []string{`""`, `"a"`, `"ab"`, `"abc"`, `"abcd"`, `"a.b"`, `"A"`, `"a\"b"`, `"\n"`, `"\u0041b"`, `"é"`, `"日本"`, `"a\ud83d\ude00"`, `"\u00e9\u00e9"`}

func c01TypedValues(thorough bool, visit func(tv)) {
	nums := c01Nums
	if thorough {
		nums = append(append([]string{}, c01Nums...), "-12.50", "-2", "0.05", "0.050", "100", "99.999", "1e0"[:1]+".75", "3", "-0.0", "0.25")
	}
	cmp := func(a, b string) int { return ratLit(a).Cmp(ratLit(b)) }
	excl := []string{"", "false", "true"}
	// (a) min / max / both, with exclusivity, typed implicitly by the literal
	for _, v := range nums {
		for _, b := range nums {
			for _, e := range excl {
				r := []string{"min: " + b}
				if e != "" {
					r = append(r, "exclusiveMinimum: "+e)
				}
				visit(tv{Lit: v, Rules: r, Witness: witnessAbove(b), Family: "min"})
				r = []string{"max: " + b}
				if e != "" {
					r = append(r, "exclusiveMaximum: "+e)
				}
				visit(tv{Lit: v, Rules: r, Witness: witnessBelow(b), Family: "max"})
			}
			for _, b2 := range nums {
				wit := midpoint(b, b2)
				if c := cmp(b, b2); c >= 0 {
					// an empty or one-point range: only the boundary numbers themselves
					if b != c01Nums[0] && b2 != c01Nums[0] && b != b2 {
						continue
					}
					wit = b
				}
				for _, e1 := range excl {
					for _, e2 := range excl {
						r := []string{"min: " + b}
						if e1 != "" {
							r = append(r, "exclusiveMinimum: "+e1)
						}
						r = append(r, "max: "+b2)
						if e2 != "" {
							r = append(r, "exclusiveMaximum: "+e2)
						}
						visit(tv{Lit: v, Rules: r, Witness: wit, Family: "min-max"})
					}
				}
			}
		}
	}
	// (b) precision
	for _, v := range []string{"0.5", "0.50", "1.25", "1.250", "1.125", "12.5", "0.1234", "-0.05", "2.0", "3.10"} {
		for p := 1; p <= 3; p++ {
			visit(tv{Lit: v, Rules: []string{fmt.Sprintf("precision: %d", p)}, Witness: "0.5", Family: "precision"})
			visit(tv{Lit: v, Rules: []string{`type: "decimal"`, fmt.Sprintf("precision: %d", p)}, Witness: "0.5", Family: "precision"})
		}
	}
	// (c) strings
	for _, s := range c01Strings {
		for n := 0; n <= 4; n++ {
			visit(tv{Lit: s, Rules: []string{fmt.Sprintf("minLength: %d", n)}, Witness: `"abcd"`, Family: "minLength"})
			visit(tv{Lit: s, Rules: []string{fmt.Sprintf("maxLength: %d", n)}, Witness: `""`, Family: "maxLength"})
			for m := n; m <= 4; m++ {
				visit(tv{Lit: s, Rules: []string{fmt.Sprintf("minLength: %d", n), fmt.Sprintf("maxLength: %d", m)}, Witness: `"` + strings.Repeat("a", n) + `"`, Family: "length-range"})
			}
		}
		for _, re := range []struct{ pat, wit string }{{`"^a"`, `"a"`}, {`"b$"`, `"ab"`}, {`"^[a-c]+$"`, `"abc"`}, {`"a\\.b"`, `"a.b"`}, {`"^$"`, `""`}} {
			visit(tv{Lit: s, Rules: []string{"regex: " + re.pat}, Witness: re.wit, Family: "regex"})
		}
	}
	// (d) formats
	for _, f := range []string{"date", "datetime", "email", "uri", "uuid"} {
		tab := formatTable[f]
		wit := ""
		keys := make([]string, 0, len(tab))
		for s := range tab {
			keys = append(keys, s)
		}
		sort.Strings(keys)
		for _, s := range keys {
			if tab[s] == accept && wit == "" {
				wit = s
			}
		}
		for _, s := range keys {
			lit, _ := stdjson.Marshal(s)
			w, _ := stdjson.Marshal(wit)
			visit(tv{Lit: string(lit), Rules: []string{`type: "` + f + `"`}, Witness: string(w), Family: "format-" + f})
		}
		visit(tv{Lit: "1", Rules: []string{`type: "` + f + `"`}, Witness: `"` + wit + `"`, Family: "format-" + f})
	}
	// (e) explicit scalar types, const, nullable on every kind
	// (a string whose content is itself wrapped in quotation marks: decoding it twice strips them)
	lits := []string{"1", "-0", "1.5", `"a"`, "true", "false", "null", `"\"q\""`, `"\"\""`}
	for _, v := range lits {
		for _, t := range []string{"integer", "float", "string", "boolean", "null", "any"} {
			w := map[string]string{"integer": "1", "float": "1.5", "string": `"a"`, "boolean": "true", "null": "null", "any": "1"}[t]
			visit(tv{Lit: v, Rules: []string{`type: "` + t + `"`}, Witness: w, Family: "type"})
			visit(tv{Lit: v, Rules: []string{`type: "` + t + `"`, "nullable: true"}, Witness: w, Family: "type-nullable"})
			visit(tv{Lit: v, Rules: []string{`type: "` + t + `"`, "nullable: false"}, Witness: w, Family: "type-nullable"})
		}
		visit(tv{Lit: v, Rules: []string{"const: true"}, Witness: v, Family: "const"})
		visit(tv{Lit: v, Rules: []string{"const: false"}, Witness: v, Family: "const"})
		// a type whose example is another value of the same kind
		if o, ok := map[string]string{"1": "2", "1.5": "2.5", `"a"`: `"b"`, "true": "false", "false": "true"}[v]; ok {
			visit(tv{Lit: v, Rules: []string{"const: true"}, Witness: o, Family: "const-other"})
			visit(tv{Lit: v, Rules: []string{"const: false"}, Witness: o, Family: "const-other"})
		}
		visit(tv{Lit: v, Rules: []string{"nullable: true"}, Witness: v, Family: "nullable"})
		for _, c := range []string{"true", "false"} {
			visit(tv{Lit: v, Rules: []string{"const: " + c, "nullable: true"}, Witness: v, Family: "const-nullable"})
			visit(tv{Lit: v, Rules: []string{"nullable: true", "const: " + c}, Witness: v, Family: "const-nullable"})
		}
		visit(tv{Lit: v, Rules: nil, Witness: v, Family: "plain"})
	}
	// (f) enum
	pool := []string{"1", "1.0", "-0", "0", `"1"`, `"a"`, `"a.b"`, "true", "null", `"null"`, `""`}
	for _, v := range pool {
		for i, a := range pool {
			visit(tv{Lit: v, Rules: []string{"enum: [" + a + "]"}, Witness: a, Family: "enum"})
			for j, b := range pool {
				if i == j {
					continue
				}
				visit(tv{Lit: v, Rules: []string{"enum: [" + a + ", " + b + "]"}, Witness: a, Family: "enum"})
				if thorough || v == "null" {
					visit(tv{Lit: v, Rules: []string{"enum: [" + a + ", " + b + "]", "nullable: true"}, Witness: a, Family: "enum-nullable"})
					visit(tv{Lit: v, Rules: []string{"nullable: true", "enum: [" + a + ", " + b + "]"}, Witness: a, Family: "enum-nullable"})
				}
			}
		}
	}
}

func witnessAbove(b string) string { // a number >= b that is > b, same literal kind as b
	r := new(big.Rat).Add(ratLit(b), big.NewRat(3, 1))
	return ratText(r, strings.Contains(b, "."))
}
func witnessBelow(b string) string {
	r := new(big.Rat).Sub(ratLit(b), big.NewRat(3, 1))
	return ratText(r, strings.Contains(b, "."))
}
func midpoint(a, b string) string {
	r := new(big.Rat).Add(ratLit(a), ratLit(b))
	r.Quo(r, big.NewRat(2, 1))
	return ratText(r, true)
}
func ratText(r *big.Rat, float bool) string {
	if r.IsInt() && !float {
		return r.Num().String()
	}
	s := r.FloatString(4)
	s = strings.TrimRight(s, "0")
	if strings.HasSuffix(s, ".") {
		s += "0"
	}
	return s
}

// ---------------------------------------------------------------- arrays

type c01Wit struct {
	TV  *tv      `json:"tv,omitempty"`
	Pos string   `json:"pos,omitempty"`
	P   *project `json:"project,omitempty"`
	Exp string   `json:"expected"`
}

func c01Judge(w *core.W, p *project, exp verdict, family, pos string, t *tv) {
	w.S.Evaluations++
	w.S.Traces++
	w.S.Transitions++
	if exp == noClaim || p == nil {
		w.Class("no-claim:" + family)
		return
	}
	var err, err2 error
	rec, site := guard(func() {
		root, berr := buildProject(p)
		if berr != nil {
			err, err2 = berr, berr
			return
		}
		err = root.Check()
		err2 = root.Check() // the verdict is the schema's, not the first call's
	})
	wit, _ := stdjson.Marshal(c01Wit{TV: t, Pos: pos, P: p, Exp: exp.String()})
	in := p.describe()
	if rec != nil {
		w.Violate(core.Violation{Clause: "no-panic", Entry: pos, Input: in, Witness: wit, Detail: fmt.Sprintf("%v", rec), Sig: map[string]string{"site": site}})
		return
	}
	w.S.Nontrivial++
	got := accept
	if err != nil {
		got = reject
	}
	if (err == nil) != (err2 == nil) || errStr(err) != errStr(err2) {
		w.Violate(core.Violation{Clause: "verdict-stable-on-repeat", Entry: pos, Input: p.describe(), Witness: wit,
			Detail: fmt.Sprintf("first Check(): %s; second Check() on the same object: %s", errStr(err), errStr(err2)), Sig: map[string]string{"family": family}})
		return
	}
	w.Class(fmt.Sprintf("%s:%s", family, exp))
	if got != exp {
		clause := "satisfying-value-accepted"
		if exp == reject {
			clause = "violating-value-rejected"
		}
		w.Violate(core.Violation{Clause: clause, Entry: pos, Input: in, Witness: wit,
			Detail: fmt.Sprintf("reference: %s, Check(): %s", exp, errStr(err)), Sig: map[string]string{"family": family, "code": fmt.Sprint(errCode(err))}})
	}
}

func c01Arrays(w *core.W, idx *int64) {
	// an empty array under an `or` whose array alternative limits the item count
	for a := 0; a <= 2; a++ {
		for _, other := range []string{`{type: "string"}`, `{type: "array", minItems: 5}`} {
			*idx++
			if !w.Mine(*idx) {
				continue
			}
			exp := accept
			if a > 0 {
				exp = reject
			}
			c01Judge(w, &project{Root: fmt.Sprintf(`[] // {or: [{type: "array", minItems: %d}, %s]}`, a, other)}, exp, "or-items", "root", nil)
			c01Judge(w, &project{Root: fmt.Sprintf("{\n\t\"k\": [] // {or: [%s, {type: \"array\", minItems: %d, maxItems: 9}]}\n}", other, a)}, exp, "or-items", "property", nil)
			c01Judge(w, &project{Root: fmt.Sprintf(`[] // {or: [{type: "array", maxItems: %d}, %s]}`, a, other)}, accept, "or-items", "root", nil)
		}
	}
	for n := 0; n <= 3; n++ {
		items := make([]string, n)
		for i := range items {
			items[i] = fmt.Sprint(i + 1)
		}
		body := "[]"
		if n > 0 {
			body = "[\n\t" + strings.Join(items, ",\n\t") + "\n]"
		}
		mk := func(rules string) string {
			if n == 0 {
				return "[] // {" + rules + "}"
			}
			return "[ // {" + rules + "}\n\t" + strings.Join(items, ",\n\t") + "\n]"
		}
		_ = body
		for a := 0; a <= 4; a++ {
			*idx++
			if w.Mine(*idx) {
				exp := accept
				if n < a {
					exp = reject
				}
				c01Judge(w, &project{Root: mk(fmt.Sprintf("minItems: %d", a))}, exp, "minItems", "root", nil)
				exp = accept
				if n > a {
					exp = reject
				}
				if !(n == 0 && a != 0) { // an empty array only admits maxItems: 0 (structural rule)
					c01Judge(w, &project{Root: mk(fmt.Sprintf("maxItems: %d", a))}, exp, "maxItems", "root", nil)
				}
				for b := a; b <= 4; b++ {
					if n == 0 && b != 0 {
						continue
					}
					exp = accept
					if n < a || n > b {
						exp = reject
					}
					c01Judge(w, &project{Root: mk(fmt.Sprintf("minItems: %d, maxItems: %d", a, b))}, exp, "items-range", "root", nil)
					c01Judge(w, &project{Root: "{\n\t\"k\": " + strings.ReplaceAll(mk(fmt.Sprintf("minItems: %d, maxItems: %d", a, b)), "\n", "\n\t") + "\n}"}, exp, "items-range", "property", nil)
				}
			}
		}
	}
}

// c01InlineVsNamed: an `or` alternative written inline as a rule-set and the same rule-set
// registered as a named type are two spellings of one alternative: the verdict for a value
// must not depend on the spelling (no hand-written expectation; this also covers the
// literals the three-valued reference makes no claim about, e.g. an integer against a
// float or decimal alternative).
func c01InlineVsNamed(w *core.W, idx *int64) {
	type alt struct{ rules, witness string }
	alts := []alt{
		{`type: "float"`, "1.5"}, {`type: "integer"`, "1"}, {`type: "decimal", precision: 2`, "1.5"}, {`type: "decimal", precision: 1, max: 100`, "1.5"},
		{`type: "float", min: 1`, "1.5"}, {`type: "integer", min: 1000`, "2000"}, {`type: "float", min: 1000`, "2000.5"}, {`type: "string"`, `"s"`}, {`type: "boolean"`, "true"},
		{`type: "string", minLength: 3`, `"abc"`}, {`type: "null"`, "null"}, {`type: "email"`, `"a@b.cc"`}, {`type: "any"`, "1"}, {`type: "enum", enum: [1, "x", 2.5]`, "1"},
	}
	lits := append(append([]string{}, c01Nums...), `"s"`, `"abcd"`, `"a@b.cc"`, `"x"`, "true", "null", "1000", "2000.5", "2.5")
	verdictOf := func(p *project) (string, error) {
		var err error
		rec, _ := guard(func() {
			root, berr := buildProject(p)
			if berr != nil {
				err = berr
				return
			}
			err = root.Check()
		})
		if rec != nil {
			return "panic", fmt.Errorf("%v", rec)
		}
		if err != nil {
			return "reject", err
		}
		return "accept", nil
	}
	for ai, a := range alts {
		for bi, b := range alts {
			if ai == bi {
				continue
			}
			*idx++
			if !w.Mine(*idx) {
				continue
			}
			for _, l := range lits {
				for _, shape := range []string{"%s", "{\n\t\"k\": %s\n}"} {
					w.S.Evaluations++
					w.S.Traces += 2
					w.S.Transitions += 2
					inline := &project{Root: fmt.Sprintf(shape, l+" // {or: [{"+a.rules+"}, {"+b.rules+"}]}")}
					named := &project{Root: fmt.Sprintf(shape, l+` // {or: ["@t", "@o"]}`), Types: map[string]string{"@t": a.witness + " // {" + a.rules + "}", "@o": b.witness + " // {" + b.rules + "}"}}
					vi, ei := verdictOf(inline)
					vn, en := verdictOf(named)
					w.S.Nontrivial++
					w.Class("inline-vs-named:" + vi)
					if vi != vn {
						wit, _ := stdjson.Marshal(c01Wit{Pos: "inline-vs-named", P: inline, Exp: vn})
						w.Violate(core.Violation{Clause: "alternative-spelling-independent", Entry: "inline-vs-named", Input: inline.describe(), Witness: wit,
							Detail: fmt.Sprintf("inline rule-sets: %s (%s); the same alternatives as named types (%s): %s (%s)", vi, errStr(ei), named.describe(), vn, errStr(en)),
							Sig:    map[string]string{"family": "inline-vs-named", "alt": a.rules, "lit": litKind(l)}})
					}
				}
			}
		}
	}
}

// c01SharedUnion: two properties of one object refer to the same types in different
// orders and through a union that contains one of them: the verdict for each property is
// its own (whatever was resolved for an earlier property must not leak into a later one).
func c01SharedUnion(w *core.W, idx *int64) {
	types := map[string]string{"@m": `1 // {max: 3}`, "@w": `"x"`, "@u": `@m | @w`, "@n": `9 // {min: 5}`}
	forms := []struct {
		ann string
		ok  func(v string) bool
	}{
		{`{or: ["@m", "@u"]}`, func(v string) bool { return v == "2" || v[0] == '"' }},
		{`{or: ["@u", "@m"]}`, func(v string) bool { return v == "2" || v[0] == '"' }},
		{`{type: "@u"}`, func(v string) bool { return v == "2" || v[0] == '"' }},
		{`{type: "@m"}`, func(v string) bool { return v == "2" }},
		{`{or: ["@n", "@u"]}`, func(v string) bool { return v != "4" }},
		{`{or: ["@w", "@n"]}`, func(v string) bool { return v == "7" || v[0] == '"' }},
	}
	vals := []string{"2", "4", "7", `"y"`}
	for _, f1 := range forms {
		for _, f2 := range forms {
			for _, v1 := range vals {
				for _, v2 := range vals {
					*idx++
					if !w.Mine(*idx) {
						continue
					}
					exp := reject
					if f1.ok(v1) && f2.ok(v2) {
						exp = accept
					}
					root := "{\n\t\"p\": " + v1 + ", // " + f1.ann + "\n\t\"q\": " + v2 + " // " + f2.ann + "\n}"
					c01Judge(w, &project{Root: root, Types: types}, exp, "shared-union", "two-properties", nil)
				}
			}
		}
	}
}

func init() {
	Register(&Prop{
		ID:        "C01",
		Technique: "bounded exhaustive enumeration of schema projects (typed value x rule template x boundary values x 8 positions), each judged by a three-valued reference semantics of the rules written from the property statement",
		Rule:      "typed values: min/max/both x exclusivity x 11 (thorough 21) boundary numbers squared; precision x fraction digits; minLength/maxLength/ranges/regex x 7 strings; 5 string formats x strings whose verdict follows from the defining RFC (URN/braced/bare-hex UUIDs and other disputed spellings are crossed without a claim); empty and one-point min/max ranges; explicit types x 7 literals x nullable; const; enum singletons and pairs over 11 scalars; arrays x minItems/maxItems 0..4; each typed value in the positions root, property, item, @t shortcut, type:\"@t\", or:[\"@t\",\"@u\"], or:[{rule set},{type:boolean}], type of a type (thorough: also one level further inside a registered type - property of a type, item of a type, type rule / or list / or rule-set inside a type - and every value rule combined with its explicit type written first or last); every ordered pair of 14 typed alternatives x 30 literals: the verdict with the alternatives written inline equals the verdict with the same alternatives registered as named types; non-trivial = projects with a reference verdict",
		Bounds: func(tier string) map[string]any {
			return map[string]any{"positions": c01Positions, "thorough_positions": c01DeepPositions, "boundary_numbers": map[string]int{"quick": len(c01Nums), "thorough": len(c01Nums) + 10}[tier]}
		},
		Run: func(w *core.W) {
			var i int64
			c01TypedValues(w.Thorough(), func(t tv) {
				i++
				if !w.Mine(i) {
					return
				}
				if i&0xff == 0 && w.OverBudget() {
					return
				}
				for _, pos := range c01Positions {
					p, exp := place(t, pos)
					tt := t
					c01Judge(w, p, exp, t.Family, pos, &tt)
				}
				if w.Thorough() {
					for _, pos := range c01DeepPositions {
						p, exp := place(t, pos)
						tt := t
						c01Judge(w, p, exp, t.Family, pos, &tt)
					}
					// the same value under the rule plus an independent second rule: its
					// explicit type, written first or last (enum excludes the other value rules)
					for _, c := range c01Combined(t) {
						for _, pos := range []string{"root", "property", "type-shortcut", "or-rulesets", "type-rule"} {
							p, exp := place(c, pos)
							cc := c
							c01Judge(w, p, exp, c.Family, pos, &cc)
						}
					}
				}
				if i%20011 == 1 {
					p, _ := place(t, "type-rule")
					if p != nil {
						w.Sample(p.describe())
					}
				}
			})
			c01Arrays(w, &i)
			c01InlineVsNamed(w, &i)
			c01SharedUnion(w, &i)
			if w.Shard == 0 {
				w.S.States += i
				w.Count("typed_values", i)
			}
		},
		Replay: func(w *core.W, v *core.Violation) {
			var wit c01Wit
			if stdjson.Unmarshal(v.Witness, &wit) != nil {
				return
			}
			exp := map[string]verdict{"accept": accept, "reject": reject}[wit.Exp]
			fam := v.Sig["family"]
			c01Judge(w, wit.P, exp, fam, v.Entry, wit.TV)
		},
		Assumptions: []string{
			"no claim: a null example under nullable:true combined with a type/or/reference; an integer literal against a float- or decimal-typed rule set; a literal whose only excess over `precision` is trailing zeros; format strings outside the clear-cut tables",
			"string lengths are numbers of characters (code points of the decoded string), as in the OpenAPI keywords the rules are exported to; regex means Go regexp, unanchored",
			"only structurally valid rule sets are generated (min < max, exclusive* only with its bound, non-empty maxItems on empty arrays excluded)",
		},
	})
}
