package props

import (
	stdjson "encoding/json"
	"fmt"

	"github.com/jsightapi/jsight-schema-core/notations/jschema"

	"verifmc/core"
	"verifmc/gen"
)

// C15 — Len() finds the end of the schema inside a larger text.

var c15Rests = []string{"", "x", " {}", `"`, "// {min: 1}", "\n\n", "*/", "###", " @a", ": 1", ","}

func c15Len(text []byte) (uint, error, any) {
	var l uint
	var err error
	rec, _ := guard(func() { l, err = jschema.New("len", text).Len() })
	return l, err, rec
}

func c15VerdictAST(text []byte) (code int, ast string, hasRoot bool, pan any) {
	rec, _ := guard(func() {
		s := jschema.New("s", text)
		for n, t := range gen.BaseTypes {
			s.AddType(n, jschema.New(n, t.Print(gen.Canonical)))
		}
		err := s.Check()
		code = errCode(err)
		if err != nil && code == 0 {
			code = -1
		}
		if a, e := s.GetAST(); e == nil {
			b, _ := stdjson.Marshal(a)
			ast = string(b)
			hasRoot = a.TokenType != ""
		}
	})
	return code, ast, hasRoot, rec
}

// c15Tails: user comments after the root value (empty ones included).
var c15Tails = []string{" #", " # c", "\t#", "\n#", "\n# c", "\n#\n#", " #\n# c", "\n###\nblock\n###"}

func c15Case(w *core.W, S []byte, entry string, firstBytes []byte) {
	w.S.Evaluations++
	w.S.Traces++
	l, err, rec := c15Len(S)
	if rec != nil || err != nil {
		w.Class("len-error")
		return // no length: nothing is claimed (errors are C16's business)
	}
	// the statement is about texts that have a root value
	s := jschema.New("s", S)
	hasRoot := false
	guard(func() {
		if s.AddRule("@e", nil) == nil {
		}
	})
	code, ast, hr, pan := c15VerdictAST(S)
	hasRoot = hr
	if pan != nil {
		return
	}
	if !hasRoot && code == 0 {
		w.Class("no-root")
		return
	}
	fail := func(clause, detail string, in []byte, sig map[string]string) {
		w.Violate(bv(clause, entry, in, detail, sig))
	}
	if int(l) > len(S) {
		fail("len-within-text", fmt.Sprintf("Len()=%d exceeds the text length %d", l, len(S)), S, nil)
		return
	}
	w.S.Nontrivial++
	w.Class(fmt.Sprintf("verdict:%v", code == 0))
	pre := S[:l]
	pcode, past, _, ppan := c15VerdictAST(pre)
	if ppan != nil {
		fail("prefix-same-verdict", fmt.Sprintf("prefix S[:%d] panics: %v", l, ppan), S, nil)
	} else if (pcode == 0) != (code == 0) {
		fail("prefix-same-verdict", fmt.Sprintf("S: code %d, S[:Len]=%q: code %d", code, trunc(string(pre), 60), pcode), S, map[string]string{"codes": fmt.Sprintf("%d->%d", code, pcode)})
	} else if code == 0 && past != ast {
		fail("prefix-same-ast", fmt.Sprintf("AST of S[:Len] differs: %s vs %s", trunc(past, 120), trunc(ast, 120)), S, nil)
	}
	if l2, e2, r2 := c15Len(pre); r2 != nil || e2 != nil || l2 != l {
		fail("len-idempotent", fmt.Sprintf("Len(S)=%d but Len(S[:Len(S)])=%d err=%v", l, l2, e2), S, nil)
	}
	if code != 0 {
		return // "if S is complete": follow-up clause only for accepted S
	}
	buf := make([]byte, 0, len(S)+32)
	for _, nl := range []string{"\n", "\r\n", "\r"} {
		for _, fb := range firstBytes {
			for _, rest := range c15Rests {
				buf = append(buf[:0], S...)
				buf = append(buf, nl...)
				buf = append(buf, fb)
				buf = append(buf, rest...)
				w.S.Transitions++
				lt, et, rt := c15Len(buf)
				if rt != nil || et != nil || lt != l {
					cls := "other"
					switch {
					case fb >= 0x80:
						cls = "high-byte"
					case fb < 0x20:
						cls = "control"
					case fb == '@' || fb == '{' || fb == '[' || fb == '"':
						cls = string(fb)
					}
					fail("followup-does-not-move-boundary", fmt.Sprintf("Len(S)=%d, Len(S+%q+%q)=%d err=%v panic=%v", l, nl, string(fb)+rest, lt, errStr(et), rt), append([]byte{}, buf...), map[string]string{"first": cls, "err": fmt.Sprint(et != nil)})
				}
			}
		}
	}
}

func init() {
	var firstAll, firstQuick []byte
	for b := 0; b < 256; b++ {
		c := byte(b)
		if c == '/' || c == '#' || c == ' ' || c == '\t' || c == '\n' || c == '\r' {
			continue
		}
		firstAll = append(firstAll, c)
	}
	firstQuick = []byte("x{}[]\":,@|*-019tfn_aZ\\.\x00\x01\x7f\x80\xc3\xe2\xf0\xff")
	Register(&Prop{
		ID:        "C15",
		Technique: "bounded exhaustive enumeration of accepted schema texts (generated models + test corpus) x every follow-up first byte x a set of rests; Len() compared with itself on the prefix and on the extended text, verdict/AST compared on the prefix",
		Rule:      "S = canonical renderings of the annotated-model family (every root kind) and the valid schemas of the test corpus; clauses Len<=|S|, S[:Len] same verdict and AST, idempotence; for accepted S: Len(S + LF|CRLF|CR + b + rest) = Len(S) for all 250 non-blank first bytes b other than '/' and '#' x 11 rests; non-trivial = texts with a root value",
		Bounds: func(tier string) map[string]any {
			return map[string]any{"first_bytes": len(firstAll), "rests": len(c15Rests), "family_level": map[string]int{"quick": 2, "thorough": 3}[tier], "quick_first_byte_classes": 28}
		},
		Run: func(w *core.W) {
			level := 2
			if w.Thorough() {
				level = 3
			}
			var i int64
			gen.AnnotatedFamily(level, func(m *gen.Model) {
				i++
				if !w.Mine(i) {
					return
				}
				if i&0xf == 0 && w.OverBudget() {
					return
				}
				S := []byte(m.Root.Print(gen.Canonical))
				fb := firstQuick
				if i%16 == 0 || w.Thorough() {
					fb = firstAll // every 16th model gets all 250 first bytes in the quick tier
				}
				c15Case(w, S, "family", fb)
				if glued := []byte(m.Root.Print(gen.Layout{NL: "\n", Ann: "inline", Indent: "\t", Glue: true})); string(glued) != string(S) {
					c15Case(w, glued, "family-glued", firstQuick)
				}
				if i%4 == 0 {
					c15Case(w, []byte(m.Root.Print(gen.Layout{NL: "\n", Ann: "multi", Indent: "\t", Glue: true})), "family-glued-multi", firstQuick)
				}
				// the same schema followed by user comments that belong to it
				if i%4 == 1 {
					for _, tail := range c15Tails {
						c15Case(w, append(append([]byte{}, S...), tail...), "family-comment-tail", firstQuick)
					}
				}
				if i%499 == 1 {
					w.Sample(string(S))
				}
			})
			var j int64
			for _, ct := range validCorpus() {
				ok := false
				for _, e := range ct.entries {
					ok = ok || e == "schema"
				}
				if !ok {
					continue
				}
				j++
				if !w.Mine(j) {
					continue
				}
				if w.OverBudget() {
					return
				}
				c15Case(w, []byte(ct.text), "corpus", firstAll)
			}
			if w.Shard == 0 {
				w.S.States += i + j
				w.Count("family.models", i)
				w.Count("corpus.schemas", j)
			}
		},
		Replay: func(w *core.W, v *core.Violation) {
			in := inputBytes(v)
			if v.Clause == "followup-does-not-move-boundary" {
				// the witness is the extended text; find S by its own Len on every split
				for cut := len(in) - 1; cut > 0; cut-- {
					if in[cut] == '\n' {
						S := in[:cut]
						if cut > 0 && in[cut-1] == '\r' {
							S = in[:cut-1]
						}
						l, e, r := c15Len(S)
						lt, et, rt := c15Len(in)
						if r == nil && e == nil && (rt != nil || et != nil || lt != l) {
							if code, _, hr, _ := c15VerdictAST(S); code == 0 && hr {
								w.Violate(bv(v.Clause, v.Entry, in, "reproduced", v.Sig))
								return
							}
						}
					}
				}
				return
			}
			c15Case(w, in, v.Entry, nil)
		},
		Assumptions: []string{"follow-up text starts on a new line with a non-blank byte other than '/' and '#'", "user types @a @b @c are registered when verdicts are compared; Len() itself never needs them"},
	})
}
