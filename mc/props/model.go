package props

import (
	stdjson "encoding/json"
	"fmt"
	"strings"

	"github.com/jsightapi/jsight-schema-core/notations/jschema"
	"github.com/jsightapi/jsight-schema-core/openapi"

	"verifmc/gen"
)

// modelProject renders a model to a project under one layout.
func modelProject(m *gen.Model, l gen.Layout) *project {
	p := &project{Root: m.Root.Print(l), Types: map[string]string{}, Enums: map[string]string{}, Regex: map[string]string{}}
	for n, t := range m.Types {
		p.Types[n] = t.Print(l)
	}
	for n, e := range m.Enums {
		p.Enums[n] = e
	}
	for n, e := range m.RegexTypes {
		p.Regex[n] = e
	}
	return p
}

// obs is the full observable behaviour of one project.
type obs struct {
	BuildErr string
	Code     int    // Check() error code (0 = accepted, -1 = error without code)
	Msg      string // Check() message
	Pos      string // index/line/column/offending type
	Len      string
	AST      string
	Example  string
	Used     string
	OpenAPI  string
	Panic    string
}

func errPos(err error) string {
	if ke, ok := err.(kitErr); ok {
		return fmt.Sprintf("idx=%d line=%d col=%d type=%q file=%q", ke.Index(), ke.Line(), ke.Column(), ke.IncorrectUserType(), ke.Filename())
	}
	return ""
}

func errMsg(err error) string {
	if ke, ok := err.(kitErr); ok {
		return ke.Message()
	}
	return errStr(err)
}

// observe builds and exercises the project; every call is guarded.
func observe(p *project) (o obs, root *jschema.JSchema) {
	rec, site := guard(func() {
		var err error
		root, err = buildProject(p)
		if err != nil {
			o.BuildErr = fmt.Sprintf("%d:%s", errCode(err), errMsg(err))
			o.Code = errCode(err)
			if o.Code == 0 {
				o.Code = -1
			}
			return
		}
		if l, e := root.Len(); e != nil {
			o.Len = "err:" + fmt.Sprint(errCode(e))
		} else {
			o.Len = fmt.Sprint(l)
		}
		err = root.Check()
		if err != nil {
			o.Code = errCode(err)
			if o.Code == 0 {
				o.Code = -1
			}
			o.Msg = errMsg(err)
			o.Pos = errPos(err)
		}
		if ex, e := root.Example(); e != nil {
			o.Example = "err:" + fmt.Sprint(errCode(e))
		} else {
			o.Example = string(ex)
		}
		if a, e := root.GetAST(); e != nil {
			o.AST = "err:" + fmt.Sprint(errCode(e))
		} else {
			b, _ := stdjson.Marshal(a)
			o.AST = string(b)
		}
		if u, e := root.UsedUserTypes(); e != nil {
			o.Used = "err:" + fmt.Sprint(errCode(e))
		} else {
			o.Used = strings.Join(u, ",")
		}
		if err == nil && o.AST != "" && !strings.HasPrefix(o.AST, `{"TokenType":""`) {
			if r2, s2 := guard(func() {
				b, e := openapi.NewSchemaObject(root).MarshalJSON()
				if e != nil {
					o.OpenAPI = "err:" + errStr(e)
				} else {
					o.OpenAPI = string(b)
				}
			}); r2 != nil {
				o.OpenAPI = fmt.Sprintf("panic:%v@%s", r2, s2)
			}
		}
	})
	if rec != nil {
		o.Panic = fmt.Sprintf("%v@%s", rec, site)
	}
	return o, root
}
