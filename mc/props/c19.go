package props

import (
	"errors"
	stdjson "encoding/json"
	"fmt"
	"reflect"
	"sort"
	"strings"

	schema "github.com/jsightapi/jsight-schema-core"
	jbytes "github.com/jsightapi/jsight-schema-core/bytes"
	"github.com/jsightapi/jsight-schema-core/notations/jschema"
	"github.com/jsightapi/jsight-schema-core/notations/jschema/ischema"
	"github.com/jsightapi/jsight-schema-core/notations/jschema/ischema/constraint"

	"verifmc/core"
	"verifmc/ref"
)

// C19 — ordered containers behave like insertion-ordered maps.
// Keys are 0,1,2 ("a","b","c"), values 1,2. E-OPS: explicit-state BFS over
// (private dump of the real container, reference dictionary) pairs until closed,
// plus every operation sequence up to a length bound without de-duplication.

type c19KV struct{ K, V int }

// c19Cont adapts one container type to integer keys/values.
type c19Cont struct {
	name    string
	isSet   bool
	fresh   func() any
	set     func(c any, k, v int)
	update  func(c any, k int, f func(int) int)
	del     func(c any, k int)
	filter  func(c any, p func(k, v int) bool)
	mapv    func(c any, f func(k, v int) int)
	mapErr  func(c any, failAt int) // Map whose callback flips values and fails (zero value + error) at key failAt
	find    func(c any, p func(k, v int) bool) (c19KV, bool)
	each    func(c any) []c19KV
	eachS   func(c any) []c19KV
	get     func(c any, k int) (int, bool)
	getV    func(c any, k int) int // 0 when absent
	has     func(c any, k int) bool
	length  func(c any) int
	marshal func(c any) ([]byte, error)
	keyJSON func(k int) string // decoded JSON key expected for k
	valOf   func(raw ref.JVal) int
}

// One plain key and two whose JSON spelling differs from their Go spelling (quote,
// backslash, control character; DEL, a non-ASCII letter, U+2028): the containers treat
// keys as opaque, the marshalled form must still be JSON.
var c19Keys = []string{"a", "q\"\\\x01", "\u00e9\x7f\u2028"}

func ruleVal(v int) schema.RuleASTNode {
	return schema.RuleASTNode{TokenType: "number", Value: fmt.Sprint(v)}
}
func ruleInt(v schema.RuleASTNode) int {
	n := 0
	fmt.Sscan(v.Value, &n)
	return n
}
func astVal(v int) schema.ASTNode { return schema.ASTNode{TokenType: "number", Value: fmt.Sprint(v)} }
func astInt(v schema.ASTNode) int {
	n := 0
	fmt.Sscan(v.Value, &n)
	return n
}

var c19CTypes = []constraint.Type{constraint.MinLengthConstraintType, constraint.MaxLengthConstraintType, constraint.MinItemsConstraintType}

func conVal(v int) constraint.Constraint {
	return constraint.NewMinLength(jbytes.NewBytes(fmt.Sprint(v)))
}
func conInt(c constraint.Constraint) int {
	if c == nil || reflect.ValueOf(c).IsNil() {
		return 0
	}
	n := 0
	s := c.String()
	fmt.Sscan(s[strings.LastIndex(s, " ")+1:], &n)
	return n
}
func conKey(t constraint.Type) int {
	for i, x := range c19CTypes {
		if x == t {
			return i
		}
	}
	return -1
}
func strKey(s string) int {
	for i, x := range c19Keys {
		if x == s {
			return i
		}
	}
	return -1
}

func c19Containers() []*c19Cont {
	rule := &c19Cont{
		name:  "RuleASTNodes",
		fresh: func() any { return &schema.RuleASTNodes{} },
		set:   func(c any, k, v int) { c.(*schema.RuleASTNodes).Set(c19Keys[k], ruleVal(v)) },
		update: func(c any, k int, f func(int) int) {
			c.(*schema.RuleASTNodes).Update(c19Keys[k], func(v schema.RuleASTNode) schema.RuleASTNode { return ruleVal(f(ruleInt(v))) })
		},
		del: func(c any, k int) { c.(*schema.RuleASTNodes).Delete(c19Keys[k]) },
		filter: func(c any, p func(k, v int) bool) {
			c.(*schema.RuleASTNodes).Filter(func(k string, v schema.RuleASTNode) bool { return p(strKey(k), ruleInt(v)) })
		},
		mapv: func(c any, f func(k, v int) int) {
			c.(*schema.RuleASTNodes).Map(func(k string, v schema.RuleASTNode) (schema.RuleASTNode, error) {
				return ruleVal(f(strKey(k), ruleInt(v))), nil
			})
		},
		mapErr: func(c any, failAt int) {
			c.(*schema.RuleASTNodes).Map(func(k string, v schema.RuleASTNode) (schema.RuleASTNode, error) {
				if strKey(k) == failAt {
					return schema.RuleASTNode{}, errors.New("callback refuses this key")
				}
				return ruleVal(flip(ruleInt(v))), nil
			})
		},
		find: func(c any, p func(k, v int) bool) (c19KV, bool) {
			it, ok := c.(*schema.RuleASTNodes).Find(func(k string, v schema.RuleASTNode) bool { return p(strKey(k), ruleInt(v)) })
			return c19KV{strKey(it.Key), ruleInt(it.Value)}, ok
		},
		each: func(c any) (out []c19KV) {
			c.(*schema.RuleASTNodes).Each(func(k string, v schema.RuleASTNode) error {
				out = append(out, c19KV{strKey(k), ruleInt(v)})
				return nil
			})
			return
		},
		eachS: func(c any) (out []c19KV) {
			c.(*schema.RuleASTNodes).EachSafe(func(k string, v schema.RuleASTNode) { out = append(out, c19KV{strKey(k), ruleInt(v)}) })
			return
		},
		get: func(c any, k int) (int, bool) {
			v, ok := c.(*schema.RuleASTNodes).Get(c19Keys[k])
			return ruleInt(v), ok
		},
		getV:    func(c any, k int) int { return ruleInt(c.(*schema.RuleASTNodes).GetValue(c19Keys[k])) },
		has:     func(c any, k int) bool { return c.(*schema.RuleASTNodes).Has(c19Keys[k]) },
		length:  func(c any) int { return c.(*schema.RuleASTNodes).Len() },
		marshal: func(c any) ([]byte, error) { return c.(*schema.RuleASTNodes).MarshalJSON() },
		keyJSON: func(k int) string { return c19Keys[k] },
		valOf:   func(raw ref.JVal) int { return jfieldInt(raw, "Value") },
	}
	ast := &c19Cont{
		name:  "ASTNodes",
		fresh: func() any { return &schema.ASTNodes{} },
		set:   func(c any, k, v int) { c.(*schema.ASTNodes).Set(c19Keys[k], astVal(v)) },
		update: func(c any, k int, f func(int) int) {
			c.(*schema.ASTNodes).Update(c19Keys[k], func(v schema.ASTNode) schema.ASTNode { return astVal(f(astInt(v))) })
		},
		del: func(c any, k int) { c.(*schema.ASTNodes).Delete(c19Keys[k]) },
		filter: func(c any, p func(k, v int) bool) {
			c.(*schema.ASTNodes).Filter(func(k string, v schema.ASTNode) bool { return p(strKey(k), astInt(v)) })
		},
		mapv: func(c any, f func(k, v int) int) {
			c.(*schema.ASTNodes).Map(func(k string, v schema.ASTNode) (schema.ASTNode, error) { return astVal(f(strKey(k), astInt(v))), nil })
		},
		mapErr: func(c any, failAt int) {
			c.(*schema.ASTNodes).Map(func(k string, v schema.ASTNode) (schema.ASTNode, error) {
				if strKey(k) == failAt {
					return schema.ASTNode{}, errors.New("callback refuses this key")
				}
				return astVal(flip(astInt(v))), nil
			})
		},
		find: func(c any, p func(k, v int) bool) (c19KV, bool) {
			it, ok := c.(*schema.ASTNodes).Find(func(k string, v schema.ASTNode) bool { return p(strKey(k), astInt(v)) })
			return c19KV{strKey(it.Key), astInt(it.Value)}, ok
		},
		each: func(c any) (out []c19KV) {
			c.(*schema.ASTNodes).Each(func(k string, v schema.ASTNode) error { out = append(out, c19KV{strKey(k), astInt(v)}); return nil })
			return
		},
		eachS: func(c any) (out []c19KV) {
			c.(*schema.ASTNodes).EachSafe(func(k string, v schema.ASTNode) { out = append(out, c19KV{strKey(k), astInt(v)}) })
			return
		},
		get: func(c any, k int) (int, bool) {
			v, ok := c.(*schema.ASTNodes).Get(c19Keys[k])
			return astInt(v), ok
		},
		getV:    func(c any, k int) int { return astInt(c.(*schema.ASTNodes).GetValue(c19Keys[k])) },
		has:     func(c any, k int) bool { return c.(*schema.ASTNodes).Has(c19Keys[k]) },
		length:  func(c any) int { return c.(*schema.ASTNodes).Len() },
		marshal: func(c any) ([]byte, error) { return c.(*schema.ASTNodes).MarshalJSON() },
		keyJSON: func(k int) string { return c19Keys[k] },
		valOf:   func(raw ref.JVal) int { return jfieldInt(raw, "Value") },
	}
	con := &c19Cont{
		name:  "Constraints",
		fresh: func() any { return &ischema.Constraints{} },
		set:   func(c any, k, v int) { c.(*ischema.Constraints).Set(c19CTypes[k], conVal(v)) },
		update: func(c any, k int, f func(int) int) {
			c.(*ischema.Constraints).Update(c19CTypes[k], func(v constraint.Constraint) constraint.Constraint { return conVal(f(conInt(v))) })
		},
		del: func(c any, k int) { c.(*ischema.Constraints).Delete(c19CTypes[k]) },
		filter: func(c any, p func(k, v int) bool) {
			c.(*ischema.Constraints).Filter(func(k constraint.Type, v constraint.Constraint) bool { return p(conKey(k), conInt(v)) })
		},
		mapv: func(c any, f func(k, v int) int) {
			c.(*ischema.Constraints).Map(func(k constraint.Type, v constraint.Constraint) (constraint.Constraint, error) {
				return conVal(f(conKey(k), conInt(v))), nil
			})
		},
		mapErr: func(c any, failAt int) {
			c.(*ischema.Constraints).Map(func(k constraint.Type, v constraint.Constraint) (constraint.Constraint, error) {
				if conKey(k) == failAt {
					return nil, errors.New("callback refuses this key")
				}
				return conVal(flip(conInt(v))), nil
			})
		},
		find: func(c any, p func(k, v int) bool) (c19KV, bool) {
			it, ok := c.(*ischema.Constraints).Find(func(k constraint.Type, v constraint.Constraint) bool { return p(conKey(k), conInt(v)) })
			if !ok {
				return c19KV{-1, 0}, false
			}
			return c19KV{conKey(it.Key), conInt(it.Value)}, ok
		},
		each: func(c any) (out []c19KV) {
			c.(*ischema.Constraints).Each(func(k constraint.Type, v constraint.Constraint) error {
				out = append(out, c19KV{conKey(k), conInt(v)})
				return nil
			})
			return
		},
		eachS: func(c any) (out []c19KV) {
			c.(*ischema.Constraints).EachSafe(func(k constraint.Type, v constraint.Constraint) { out = append(out, c19KV{conKey(k), conInt(v)}) })
			return
		},
		get: func(c any, k int) (int, bool) {
			v, ok := c.(*ischema.Constraints).Get(c19CTypes[k])
			return conInt(v), ok
		},
		getV:    func(c any, k int) int { return conInt(c.(*ischema.Constraints).GetValue(c19CTypes[k])) },
		has:     func(c any, k int) bool { return c.(*ischema.Constraints).Has(c19CTypes[k]) },
		length:  func(c any) int { return c.(*ischema.Constraints).Len() },
		marshal: nil, // keys are an integer enum and the values have no JSON form: MarshalJSON of this instantiation is not part of the claim
	}
	set := &c19Cont{
		name:   "StringSet",
		isSet:  true,
		fresh:  func() any { return &jschema.StringSet{} },
		set:    func(c any, k, v int) { c.(*jschema.StringSet).Add(c19Keys[k]) },
		has:    func(c any, k int) bool { return c.(*jschema.StringSet).Has(c19Keys[k]) },
		length: func(c any) int { return c.(*jschema.StringSet).Len() },
		each: func(c any) (out []c19KV) {
			for _, s := range c.(*jschema.StringSet).Data() {
				out = append(out, c19KV{strKey(s), 1})
			}
			return
		},
	}
	return []*c19Cont{rule, ast, con, set}
}

func jfieldInt(v ref.JVal, field string) int {
	for i, k := range v.Keys {
		if k == field {
			n := 0
			fmt.Sscan(v.Items[i].Str, &n)
			return n
		}
	}
	return -1
}

// ---- reference: insertion-ordered dictionary
type c19Ref struct {
	order []int
	data  map[int]int
}

func newC19Ref() *c19Ref { return &c19Ref{data: map[int]int{}} }
func (r *c19Ref) set(k, v int) {
	if _, ok := r.data[k]; !ok {
		r.order = append(r.order, k)
	}
	r.data[k] = v
}
func (r *c19Ref) del(k int) {
	if _, ok := r.data[k]; !ok {
		return
	}
	delete(r.data, k)
	for i, x := range r.order {
		if x == k {
			r.order = append(append([]int{}, r.order[:i]...), r.order[i+1:]...)
			break
		}
	}
}
func (r *c19Ref) items() []c19KV {
	out := []c19KV{}
	for _, k := range r.order {
		out = append(out, c19KV{k, r.data[k]})
	}
	return out
}
func (r *c19Ref) String() string { return fmt.Sprint(r.items()) }

// ---- operations
type c19Op struct {
	Kind string `json:"op"`
	K    int    `json:"k,omitempty"`
	V    int    `json:"v,omitempty"`
	P    string `json:"p,omitempty"`
}

func (o c19Op) String() string {
	switch o.Kind {
	case "set":
		return fmt.Sprintf("Set(%q,%d)", c19Keys[o.K], o.V)
	case "add":
		return fmt.Sprintf("Add(%q)", c19Keys[o.K])
	case "update":
		return fmt.Sprintf("Update(%q)", c19Keys[o.K])
	case "delete":
		return fmt.Sprintf("Delete(%q)", c19Keys[o.K])
	case "filter":
		return "Filter(keep " + o.P + ")"
	case "map":
		return "Map(flip)"
	case "maperr":
		return fmt.Sprintf("Map(flip, error at %q)", c19Keys[o.K])
	case "new":
		return "NewStringSet(" + o.P + ")"
	}
	return o.Kind
}

var c19Preds = map[string]func(k, v int) bool{
	"none":    func(k, v int) bool { return false },
	"all":     func(k, v int) bool { return true },
	"key=a":   func(k, v int) bool { return k == 0 },
	"key!=a":  func(k, v int) bool { return k != 0 },
	"value=1": func(k, v int) bool { return v == 1 },
}
var c19PredNames = []string{"none", "all", "key=a", "key!=a", "value=1", "first-shown"}

func flip(v int) int {
	if v == 1 {
		return 2
	}
	return 1
}

func c19Alphabet(ct *c19Cont) []c19Op {
	var ops []c19Op
	if ct.isSet {
		for k := 0; k < 3; k++ {
			ops = append(ops, c19Op{Kind: "add", K: k})
		}
		return ops
	}
	for k := 0; k < 3; k++ {
		for v := 1; v <= 2; v++ {
			ops = append(ops, c19Op{Kind: "set", K: k, V: v})
		}
	}
	for k := 0; k < 3; k++ {
		ops = append(ops, c19Op{Kind: "delete", K: k})
	}
	for k := 0; k < 3; k++ {
		ops = append(ops, c19Op{Kind: "update", K: k})
	}
	for _, p := range c19PredNames {
		ops = append(ops, c19Op{Kind: "filter", P: p})
	}
	ops = append(ops, c19Op{Kind: "map"})
	for k := 0; k < 3; k++ {
		ops = append(ops, c19Op{Kind: "maperr", K: k})
	}
	return ops
}

func c19Apply(ct *c19Cont, c any, r *c19Ref, op c19Op) {
	switch op.Kind {
	case "set", "add":
		v := op.V
		if ct.isSet {
			v = 1
		}
		ct.set(c, op.K, v)
		r.set(op.K, v)
	case "delete":
		ct.del(c, op.K)
		r.del(op.K)
	case "update":
		ct.update(c, op.K, flip)
		if v, ok := r.data[op.K]; ok {
			r.data[op.K] = flip(v)
		}
	case "filter":
		if op.P == "first-shown" {
			// a callback with a memory: it keeps the entry it is shown first and refuses
			// the rest - an insertion-ordered dictionary shows the oldest entry first
			shown := 0
			ct.filter(c, func(k, v int) bool { shown++; return shown == 1 })
			for i, it := range r.items() {
				if i > 0 {
					r.del(it.K)
				}
			}
			return
		}
		p := c19Preds[op.P]
		ct.filter(c, p)
		for _, it := range r.items() {
			if !p(it.K, it.V) {
				r.del(it.K)
			}
		}
	case "map":
		ct.mapv(c, func(k, v int) int { return flip(v) })
		for k, v := range r.data {
			r.data[k] = flip(v)
		}
	case "maperr":
		// the entries before the refused key are mapped, the refused one and those
		// after it stay as they are
		ct.mapErr(c, op.K)
		for _, it := range r.items() {
			if it.K == op.K {
				break
			}
			r.data[it.K] = flip(it.V)
		}
	}
}

// c19Dump reads the private state (order slice and data map) by reflection.
func c19Dump(c any) string {
	v := reflect.ValueOf(c).Elem()
	var b strings.Builder
	o := v.FieldByName("order")
	b.WriteString("order=[")
	for i := 0; i < o.Len(); i++ {
		e := o.Index(i)
		if e.Kind() == reflect.String {
			b.WriteString(e.String())
		} else {
			fmt.Fprint(&b, e.Int())
		}
		b.WriteByte(' ')
	}
	b.WriteString("] data={")
	d := v.FieldByName("data")
	var ks []string
	if d.IsValid() && !d.IsNil() {
		it := d.MapRange()
		for it.Next() {
			k := it.Key()
			var ks1 string
			if k.Kind() == reflect.String {
				ks1 = k.String()
			} else {
				ks1 = fmt.Sprint(k.Int())
			}
			val := it.Value()
			vs := ""
			switch val.Kind() {
			case reflect.Struct:
				if f := val.FieldByName("Value"); f.IsValid() {
					vs = f.String()
				}
			case reflect.Interface:
				if !val.IsNil() {
					e := val.Elem()
					if e.Kind() == reflect.Ptr && !e.IsNil() {
						vs = fmt.Sprint(e.Elem().FieldByName("value"))
					}
				}
			}
			ks = append(ks, ks1+":"+vs)
		}
	}
	sort.Strings(ks)
	b.WriteString(strings.Join(ks, " "))
	b.WriteString("}")
	return b.String()
}

// c19Observe compares every observable with the reference; returns "" or the first difference.
func c19Observe(ct *c19Cont, c any, r *c19Ref) (clause, detail string) {
	want := r.items()
	if got := ct.length(c); got != len(want) {
		return "len", fmt.Sprintf("Len()=%d, reference has %d entries", got, len(want))
	}
	for k := 0; k < 3; k++ {
		_, in := r.data[k]
		if got := ct.has(c, k); got != in {
			return "has", fmt.Sprintf("Has(%q)=%v, reference %v", c19Keys[k], got, in)
		}
		if ct.get != nil {
			v, ok := ct.get(c, k)
			if ok != in || (in && v != r.data[k]) {
				return "get", fmt.Sprintf("Get(%q)=(%d,%v), reference (%d,%v)", c19Keys[k], v, ok, r.data[k], in)
			}
			if gv := ct.getV(c, k); gv != r.data[k] {
				return "get", fmt.Sprintf("GetValue(%q)=%d, reference %d", c19Keys[k], gv, r.data[k])
			}
		}
	}
	if got := ct.each(c); fmt.Sprint(got) != fmt.Sprint(want) && !(len(got) == 0 && len(want) == 0) {
		return "iteration-order", fmt.Sprintf("iteration yields %v, reference %v", got, want)
	}
	if ct.eachS != nil {
		if got := ct.eachS(c); fmt.Sprint(got) != fmt.Sprint(want) && !(len(got) == 0 && len(want) == 0) {
			return "iteration-order", fmt.Sprintf("EachSafe yields %v, reference %v", got, want)
		}
	}
	if ct.find != nil {
		for _, pn := range c19PredNames {
			p := c19Preds[pn]
			if p == nil {
				continue // (the callback with a memory is a Filter matter)
			}
			got, ok := ct.find(c, p)
			var w c19KV
			wok := false
			for _, it := range want {
				if p(it.K, it.V) {
					w, wok = it, true
					break
				}
			}
			if ok != wok || (ok && got != w) {
				return "find", fmt.Sprintf("Find(%s)=(%v,%v), reference (%v,%v)", pn, got, ok, w, wok)
			}
		}
	}
	if ct.marshal != nil {
		b, err := ct.marshal(c)
		if err != nil {
			return "marshal", "MarshalJSON error: " + err.Error()
		}
		if !stdjson.Valid(b) {
			return "marshal", fmt.Sprintf("MarshalJSON is not valid JSON: %s", trunc(string(b), 100))
		}
		tree, err := ref.DecodeOrdered(b)
		if err != nil || tree.Kind != 'o' {
			return "marshal", fmt.Sprintf("MarshalJSON is not a JSON object: %s", trunc(string(b), 100))
		}
		var got []c19KV
		for i, k := range tree.Keys {
			got = append(got, c19KV{strKey(k), ct.valOf(tree.Items[i])})
		}
		if fmt.Sprint(got) != fmt.Sprint(want) && !(len(got) == 0 && len(want) == 0) {
			return "marshal", fmt.Sprintf("MarshalJSON entries %v, reference %v", got, want)
		}
		// the bytes belong to the caller: marshalling again (this container, then a
		// container of the same kind with other content) does not change them
		kept := string(b)
		other := ct.fresh()
		ct.set(other, 2, 2)
		ct.set(other, 1, 1)
		if _, err := ct.marshal(c); err == nil {
			if _, err2 := ct.marshal(other); err2 == nil && string(b) != kept {
				return "marshal-result-stays-intact", fmt.Sprintf("the bytes returned by MarshalJSON were %s and read %s after two more MarshalJSON calls", trunc(kept, 80), trunc(string(b), 80))
			}
		}
	}
	return "", ""
}

type c19Witness struct {
	Container string  `json:"container"`
	Init      []int   `json:"init,omitempty"` // NewStringSet arguments
	Ops       []c19Op `json:"ops"`
}

func c19Fresh(ct *c19Cont, init []int) (any, *c19Ref) {
	r := newC19Ref()
	if init == nil {
		return ct.fresh(), r
	}
	var vv []string
	for _, k := range init {
		vv = append(vv, c19Keys[k])
		r.set(k, 1)
	}
	return jschema.NewStringSet(vv...), r
}

// c19Replay runs a path on a fresh instance, checking observables after every step.
// It returns the container, the reference and whether a violation was reported.
func c19RunPath(w *core.W, ct *c19Cont, init []int, ops []c19Op, checkFrom int, entry string) (any, *c19Ref, bool) {
	c, r := c19Fresh(ct, init)
	var bad bool
	rec, site := guard(func() {
		if checkFrom <= 0 {
			if cl, d := c19Observe(ct, c, r); cl != "" {
				c19Report(w, ct, init, ops[:0], cl, d, entry)
				bad = true
				return
			}
		}
		for i, op := range ops {
			c19Apply(ct, c, r, op)
			w.S.Transitions++
			if i+1 >= checkFrom {
				if cl, d := c19Observe(ct, c, r); cl != "" {
					c19Report(w, ct, init, ops[:i+1], cl, d, entry)
					bad = true
					return
				}
			}
		}
	})
	if rec != nil {
		c19Report(w, ct, init, ops, "no-panic", fmt.Sprintf("panic: %v at %s", rec, site), entry)
		return c, r, true
	}
	return c, r, bad
}

func c19Report(w *core.W, ct *c19Cont, init []int, ops []c19Op, clause, detail, entry string) {
	wit, _ := stdjson.Marshal(c19Witness{Container: ct.name, Init: init, Ops: ops})
	var parts []string
	if init != nil {
		var a []string
		for _, k := range init {
			a = append(a, c19Keys[k])
		}
		parts = append(parts, "NewStringSet("+strings.Join(a, ",")+")")
	}
	for _, o := range ops {
		parts = append(parts, o.String())
	}
	last := "initial"
	if len(ops) > 0 {
		last = ops[len(ops)-1].Kind
		if last == "delete" || last == "update" {
			// absent or present?
			_, r := c19Fresh(ct, init)
			c2 := ct.fresh()
			_ = c2
			rr := newC19Ref()
			for _, k := range init {
				rr.set(k, 1)
			}
			cc := ct.fresh()
			func() {
				defer func() { recover() }()
				for _, o := range ops[:len(ops)-1] {
					c19Apply(ct, cc, rr, o)
				}
			}()
			_ = r
			if _, ok := rr.data[ops[len(ops)-1].K]; ok {
				last += "-present"
			} else {
				last += "-absent"
			}
		}
		if last == "filter" {
			last += ":" + ops[len(ops)-1].P
		}
	} else if init != nil {
		last = "new"
	}
	w.Violate(core.Violation{Clause: clause, Entry: entry, Input: ct.name + ": " + strings.Join(parts, "; "), Witness: wit, Detail: detail,
		Sig: map[string]string{"container": ct.name, "last_op": last}})
}

func c19Depth(tier string) int {
	if tier == "thorough" {
		return 6
	}
	return 5
}

func init() {
	Register(&Prop{
		ID:        "C19",
		Technique: "explicit-state BFS over (private container state, reference dictionary) pairs driven through the real methods, plus exhaustive operation sequences up to a depth bound",
		Rule: "operations Set/Update/Delete(present and absent)/Filter(5 predicates and a callback with a memory that keeps only the entry it is shown first)/Map/Map with a callback that fails at a key on three keys (one plain, two that need JSON escaping: quote+backslash+control, DEL+non-ASCII+U+2028) x values {1,2} for RuleASTNodes, ASTNodes, Constraints; Add and NewStringSet(every argument list of <=3 keys) for StringSet; after every step Len/Has/Get/GetValue/Each/EachSafe/Find/MarshalJSON are compared with an insertion-ordered dictionary; " +
			"states = distinct (impl dump, reference) pairs, non-trivial = histories of length >= 2",
		Shards: func(string) int { return 16 },
		Bounds: func(tier string) map[string]any {
			return map[string]any{"sequence_depth": c19Depth(tier), "keys": 3, "values": 2}
		},
		Run: c19Run,
		Replay: func(w *core.W, v *core.Violation) {
			var wit c19Witness
			if stdjson.Unmarshal(v.Witness, &wit) != nil {
				return
			}
			for _, ct := range c19Containers() {
				if ct.name == wit.Container {
					c19RunPath(w, ct, wit.Init, wit.Ops, 0, v.Entry)
				}
			}
		},
		Assumptions: []string{
			"MarshalJSON of ischema.Constraints (integer-enum keys, values without JSON form) is not part of the claim; all its other observables are",
			"callbacks do not re-enter the container",
		},
	})
}

func c19Run(w *core.W) {
	conts := c19Containers()
	ct := conts[w.Shard%len(conts)]
	sub, nsub := w.Shard/len(conts), 4
	if sub > 0 {
		c19Sequences(w, ct, sub, nsub)
		return
	}
	alpha := c19Alphabet(ct)
	var inits [][]int
	if ct.isSet {
		inits = append(inits, nil)
		var gen func(p []int)
		gen = func(p []int) {
			inits = append(inits, append([]int{}, p...))
			if len(p) == 3 {
				return
			}
			for k := 0; k < 3; k++ {
				gen(append(p, k))
			}
		}
		gen([]int{})
	} else {
		inits = [][]int{nil}
	}
	// (1) BFS until closed
	type node struct {
		init []int
		ops  []c19Op
	}
	seen := map[string]bool{}
	var frontier []node
	for _, in := range inits {
		c, r, bad := c19RunPath(w, ct, in, nil, 0, "bfs")
		w.S.Evaluations++
		if bad {
			continue
		}
		k := c19Dump(c) + "||" + r.String()
		if !seen[k] {
			seen[k] = true
			frontier = append(frontier, node{in, nil})
		}
	}
	depth := 0
	for len(frontier) > 0 && depth < 12 {
		depth++
		var next []node
		for _, n := range frontier {
			for _, op := range alpha {
				ops := append(append([]c19Op{}, n.ops...), op)
				c, r, bad := c19RunPath(w, ct, n.init, ops, len(ops), "bfs")
				w.S.Evaluations++
				w.S.Traces++
				if len(ops) >= 2 {
					w.S.Nontrivial++
				}
				if bad {
					continue // violating states are not expanded: witnesses stay minimal
				}
				k := c19Dump(c) + "||" + r.String()
				if !seen[k] {
					seen[k] = true
					next = append(next, node{n.init, ops})
					if len(ops) == 3 {
						w.Sample(ct.name + ": " + fmt.Sprint(ops))
					}
				}
			}
		}
		frontier = next
	}
	if len(frontier) > 0 {
		w.Cap(ct.name + ": BFS depth cap 12 reached before closure")
	}
	w.S.States += int64(len(seen))
	w.Count(ct.name+".bfs_states", int64(len(seen)))
	w.Count(ct.name+".bfs_depth_to_closure", int64(depth))
	c19Sequences(w, ct, sub, nsub)
}

// c19Sequences: every sequence up to the depth bound, no de-duplication
// (cross-check of the state abstraction); first operations are dealt to sub-shards.
func c19Sequences(w *core.W, ct *c19Cont, sub, nsub int) {
	alpha := c19Alphabet(ct)
	D := c19Depth(w.Tier)
	var rec func(ops []c19Op)
	var nseq int64
	rec = func(ops []c19Op) {
		if len(ops) > 0 {
			nseq++
			w.S.Evaluations++
			_, _, bad := c19RunPath(w, ct, nil, ops, len(ops), "sequences")
			if bad {
				return
			}
		}
		if len(ops) == D || w.OverBudget() {
			return
		}
		for i, op := range alpha {
			if len(ops) == 0 && i%nsub != sub {
				continue
			}
			rec(append(ops, op))
		}
	}
	rec(nil)
	w.Count(ct.name+".sequences", nseq)
}
