// Package props: one file per property (space definition + oracle clauses).
package props

import (
	"sort"

	"verifmc/core"
)

// Prop describes one property's check.
type Prop struct {
	ID          string
	Level       string // evidence level
	Rule        string // how cases are enumerated, what counts as non-trivial
	Technique   string
	Inst        bool // needs the instrumented binary (mc-inst)
	MaxProcs    int  // GOMAXPROCS for workers (0 = 2)
	Shards      func(tier string) int
	Bounds      func(tier string) map[string]any
	Run         func(w *core.W)
	Replay      func(w *core.W, v *core.Violation)            // re-executes exactly the witness of v, calling w.Violate again if it still fails
	OnAbort     func(desc []byte, how string) *core.Violation // worker died / hung in the marked case; nil = not a violation of this property
	Assumptions []string
}

var Registry = map[string]*Prop{}

func Register(p *Prop) {
	if p.Level == "" {
		p.Level = "model_checking"
	}
	Registry[p.ID] = p
}

func IDs() []string {
	var ids []string
	for k := range Registry {
		ids = append(ids, k)
	}
	sort.Strings(ids)
	return ids
}
