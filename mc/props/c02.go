package props

import (
	stdjson "encoding/json"
	"fmt"
	"go/ast"
	"go/parser"
	"go/token"
	"os"
	"path/filepath"
	"sort"
	"strconv"
	"strings"

	jdoc "github.com/jsightapi/jsight-schema-core/formats/json"
	jnum "github.com/jsightapi/jsight-schema-core/json"
	"github.com/jsightapi/jsight-schema-core/notations/jschema"
	"github.com/jsightapi/jsight-schema-core/notations/jschema/scanner"
	jregex "github.com/jsightapi/jsight-schema-core/notations/regex"
	"github.com/jsightapi/jsight-schema-core/rules/enum"

	"verifmc/core"
	"verifmc/gen"
	"verifmc/seq"
	"verifmc/state"
)

// C02 — no input crashes, hangs or panics any public entry point.
// C16 — every rejection is a well-formed diagnostic (same enumeration, other sink).

var schemaTokens = toks(`{`, `}`, `[`, `]`, `:`, `,`, `"k"`, `"`, `\`, `u`, `1`, `0`, `-`, `.`, `e`, `true`, `null`, `@a`, `@`, `|`, ` `, "\n", "\r", `/`, `*`, `#`, `min`, `or`, `x`, "\x01", "é")
var enumTokens = toks(`[`, `]`, `,`, `"a"`, `"`, `\`, `1`, `1.5`, `0`, `-`, `.`, `e`, `true`, `null`, ` `, "\n", `//`, `/*`, `*/`, `x`, `#`, `*`, `/`)
var jsonDocTokens = c12Tokens
var numberTokens = c13Tokens

var schemaSymbols = []byte("{}[]:,\"\\/bfnrtuaeslx019-+.E @|*#\t\n\r\x01\x1f\x7f\xc3\xa9_m")
var enumSymbols = []byte("[],\"\\/bfnrtuaesl019-+.E *#\t\n\rx\x01\x1f\xc3\xa9")

type spaceBounds struct {
	schemaN, enumN, regexN, jsonN, numberN int
	schemaD, enumD, jsonD                  int
	graphForms                             int
}

func c02Bounds(tier string) spaceBounds {
	if tier == "thorough" {
		return spaceBounds{schemaN: 5, enumN: 6, regexN: 6, jsonN: 6, numberN: 7, schemaD: 7, enumD: 6, jsonD: 10}
	}
	return spaceBounds{schemaN: 4, enumN: 5, regexN: 5, jsonN: 4, numberN: 6, schemaD: 5, enumD: 5, jsonD: 8}
}

type sinkMaker func(entry string, in []byte, wit []byte) callSink

var entryBundles = map[string]func([]byte, callSink){
	"schema": bundleSchema, "enum": bundleEnum, "regex": bundleRegex, "jsondoc": bundleJSONDoc, "number": bundleNumber,
}

func init() { entryBundles["nesting"] = bundleNesting; entryBundles["plaintext"] = bundlePlaintext }

var plaintextTokens = toks("a", " ", "\n", "\r", `"`, "\xff", "é", "{")

// bundleNesting: the input is a descriptor "<shape>:<depth>:<entry>" of a text that nests
// one container in another depth times (kept as a descriptor so that witnesses and replay
// files stay small); shapes: arr = [[..]], obj = {"k":{"k":..1}}, mix alternates them.
func bundleNesting(in []byte, sink callSink) {
	f := strings.Split(string(in), ":")
	if len(f) != 3 {
		return
	}
	d, _ := strconv.Atoi(f[1])
	var open, close strings.Builder
	for i := 0; i < d; i++ {
		switch {
		case f[0] == "arr" || (f[0] == "mix" && i%2 == 0):
			open.WriteString("[")
			close.WriteString("]")
		default:
			open.WriteString(`{"k":`)
			close.WriteString("}")
		}
	}
	mid := "1"
	if f[0] == "arr" {
		mid = ""
	}
	rev := []byte(close.String())
	for i, j := 0, len(rev)-1; i < j; i, j = i+1, j-1 {
		rev[i], rev[j] = rev[j], rev[i]
	}
	text := []byte(open.String() + mid + string(rev))
	if g, ok := entryBundles[f[2]]; ok && f[2] != "nesting" {
		g(text, sink)
	}
}

// nestingLadder: containers nested ever deeper. Time that doubles with every level runs
// into the watchdog at a depth of a few dozen; recursion without a limit runs out of stack
// (in the workers: 64 MiB) at some depth - the deepest rungs belong to the thorough tier.
func (r *spaceRunner) nestingLadder() {
	depths := []int{1, 2, 8, 16, 24, 32, 48, 64, 128, 1000, 4000}
	if r.w.Thorough() {
		depths = append(depths, 20000, 100000)
	}
	for _, shape := range []string{"arr", "obj", "mix"} {
		for _, e := range []string{"schema", "jsondoc"} {
			broken := false
			for _, d := range depths {
				if d > 4000 && e == "schema" && shape != "arr" {
					continue // (one shape is enough where a rung costs seconds)
				}
				if broken {
					r.ord++ // a ladder that broke at one rung is not climbed further (ordinals stay stable)
					continue
				}
				r.bytesCase("nesting", []byte(fmt.Sprintf("%s:%d:%s", shape, d, e)))
				r.w.S.Nontrivial++
				if r.w.ResumeSet && r.w.ResumeAfter == r.ord {
					broken = true // this very rung killed the previous worker
				}
			}
		}
	}
}

// spaceRunner owns the case ordinal used for crash containment.
type spaceRunner struct {
	// inputsOnly (C16): leave out calls whose failure is a programming error of the
	// caller (a nil schema or rule) rather than a rejected input.
	inputsOnly bool
	w          *core.W
	mk   sinkMaker
	ord  uint64
	desc []byte
}

func (r *spaceRunner) bytesCase(entry string, in []byte) {
	r.ord++
	r.desc = append(append(r.desc[:0], entry...), 0)
	r.desc = append(r.desc, in...)
	if !r.w.Begin(r.ord, r.desc) {
		return
	}
	r.w.S.Evaluations++
	r.w.S.Traces++
	if r.ord%200003 == 1 {
		r.w.Sample(entry + ": " + strconv.Quote(string(in)))
	}
	entryBundles[entry](in, r.mk(entry, in, nil))
}

func (r *spaceRunner) projectCase(entry string, p *project) {
	r.ord++
	wit, _ := stdjson.Marshal(p)
	r.desc = append(append(r.desc[:0], "project:"+entry...), 0)
	r.desc = append(r.desc, wit...)
	if !r.w.Begin(r.ord, r.desc) {
		return
	}
	r.w.S.Evaluations++
	r.w.S.Traces++
	if r.ord%50021 == 1 {
		r.w.Sample("project:" + entry + ": " + trunc(p.describe(), 300))
	}
	bundleProject(p, r.mk("project:"+entry, []byte(p.describe()), wit))
}

func (p *project) describe() string {
	var b strings.Builder
	b.WriteString("root=" + strconv.Quote(p.Root))
	for _, n := range sortedKeys(p.Types) {
		b.WriteString(" " + n + "=" + strconv.Quote(p.Types[n]))
	}
	for _, n := range sortedKeys(p.Regex) {
		b.WriteString(" " + n + "=regex" + strconv.Quote(p.Regex[n]))
	}
	for _, n := range sortedKeys(p.Enums) {
		b.WriteString(" " + n + "=enum" + strconv.Quote(p.Enums[n]))
	}
	if len(p.Nested) > 0 {
		j, _ := stdjson.Marshal(p.Nested)
		b.WriteString(" nested=" + string(j))
	}
	if p.Mesh {
		b.WriteString(" meshed")
	}
	if p.TypeFile != "" {
		b.WriteString(" typeFile=" + p.TypeFile)
	}
	return b.String()
}

func (r *spaceRunner) seqSpace(entry string, tokens [][]byte, n int) {
	w := r.w
	e := &seq.Enum{Tokens: tokens, N: n, W: w}
	e.Run(func(s []byte, ntok int, own bool) bool {
		if own {
			r.bytesCase(entry, s)
			w.S.Nontrivial++
		}
		return false
	})
	w.S.States += e.Nodes
	w.Count("seq."+entry+".strings", e.Nodes)
}

func (r *spaceRunner) stateSpace(name, entry string, symbols []byte, depth int, key func([]byte) (string, int, bool)) {
	s := &state.Search{W: r.w, Name: name, Symbols: symbols, MaxDepth: depth, MaxLen: 64, Key: key,
		Check: func(in []byte) { r.bytesCase(entry, in) }}
	s.Run()
}

// run enumerates all byte-level spaces and project families.
func (r *spaceRunner) run(b spaceBounds) {
	w := r.w
	// (a) bounded exhaustive token strings
	r.seqSpace("schema", schemaTokens, b.schemaN)
	r.seqSpace("enum", enumTokens, b.enumN)
	r.seqSpace("regex", c18Tokens, b.regexN)
	r.seqSpace("jsondoc", jsonDocTokens, b.jsonN)
	r.seqSpace("number", numberTokens, b.numberN)
	r.seqSpace("plaintext", plaintextTokens, 4)
	// (b) every reachable scanner state x every byte class x end of input
	r.stateSpace("schemascanner", "schema", schemaSymbols, b.schemaD, func(p []byte) (string, int, bool) { return scanner.VerifKeyAfter(p, false) })
	r.stateSpace("schemascanner-len", "schema", schemaSymbols, b.schemaD, func(p []byte) (string, int, bool) { return scanner.VerifKeyAfter(p, true) })
	r.stateSpace("enumscanner", "enum", enumSymbols, b.enumD, func(p []byte) (string, int, bool) { return enum.VerifKeyAfter(p, false) })
	r.stateSpace("enumscanner-len", "enum", enumSymbols, b.enumD, func(p []byte) (string, int, bool) { return enum.VerifKeyAfter(p, true) })
	r.stateSpace("jsonscanner", "jsondoc", c12Symbols, b.jsonD, func(p []byte) (string, int, bool) { return jdoc.VerifKeyAfter(p, false) })
	r.stateSpace("numberscanner", "number", []byte("019-.eE+x"), 0, jnum.VerifNumberKeyAfter)
	// (c) every truncation of every valid text of the repository's test corpus
	corpus := validCorpus()
	var i int64
	for _, ct := range corpus {
		for cut := 0; cut <= len(ct.text); cut++ {
			i++
			if !w.Mine(i) {
				continue
			}
			if i&0xff == 0 && w.OverBudget() {
				return
			}
			pre := []byte(ct.text[:cut])
			for _, entry := range ct.entries {
				r.bytesCase(entry, pre)
			}
			w.S.Nontrivial++
		}
	}
	if w.Shard == 0 {
		w.Count("corpus.valid_texts", int64(len(corpus)))
		w.Count("corpus.truncations", i)
	}
	// (d) reference-graph family
	r.graphFamily()
	// (e) string-content family
	r.stringFamily()
	r.quotedTextFamily()
	// (f) API call sequences in unusual orders
	r.apiFamily()
	// (h) the annotated-model family (every rule kind with its boundary values, incl.
	// 19/20-digit and 2^63 / 2^64-1 rule values) through the whole bundle
	var am int64
	gen.AnnotatedFamily(1, func(m *gen.Model) {
		am++
		if !w.Mine(am) {
			return
		}
		r.projectCase("annotated", modelProject(m, gen.Canonical))
		w.S.Nontrivial++
	})
	// (g) regex patterns that stress the example generator
	if w.Shard == 0 {
		for _, t := range c18Extra {
			r.bytesCase("regex", []byte(t))
			w.S.Nontrivial++
		}
		// regex texts with line breaks around the delimiters (the diagnostics point at them)
		for _, t := range []string{"\n/", "\n/a/", "\na", " \n /a/", "\r\n/a", "\r/a/", "/a\n/", "/a/\n", "/a/\nx", "\n", "\n\n/a/"} {
			r.bytesCase("regex", []byte(t))
			w.S.Nontrivial++
		}
	}
}

// apiFamily: every sequence of <= 3 registration / query calls (repeated and late
// registrations, nil and ill-named arguments, broken and mutually registered types)
// on a small project, followed by the usual bundle of queries.
func (r *spaceRunner) apiFamily() {
	w := r.w
	roots := []string{"@t", "{\n\t\"k\": @t,\n\t\"e\": 1 // {enum: @e}\n}", "1", ""}
	type env struct {
		root, t1, t2, broken *jschema.JSchema
		re, badRe            *jregex.RSchema
	}
	ops := []struct {
		name string
		f    func(e *env) error
	}{
		{"AddType(@t,t1)", func(e *env) error { return e.root.AddType("@t", e.t1) }},
		{"AddType(@t,t2)", func(e *env) error { return e.root.AddType("@t", e.t2) }},
		{"AddType(@u,t2)", func(e *env) error { return e.root.AddType("@u", e.t2) }},
		{"AddType(bad name,t1)", func(e *env) error { return e.root.AddType("t", e.t1) }},
		{"AddType(empty name,t1)", func(e *env) error { return e.root.AddType("", e.t1) }},
		{"AddType(@n,nil)", func(e *env) error { return e.root.AddType("@n", nil) }},
		{"AddType(@b,broken)", func(e *env) error { return e.root.AddType("@b", e.broken) }},
		{"AddType(@r,regex)", func(e *env) error { return e.root.AddType("@r", e.re) }},
		{"AddType(@r,bad regex)", func(e *env) error { return e.root.AddType("@r", e.badRe) }},
		{"AddType(@root,root)", func(e *env) error { return e.root.AddType("@root", e.root) }},
		{"t1.AddType(@root,root)", func(e *env) error { return e.t1.AddType("@root", e.root) }},
		{"t1.AddType(@u,t2)", func(e *env) error { return e.t1.AddType("@u", e.t2) }},
		{"AddRule(@e,enum)", func(e *env) error { return e.root.AddRule("@e", enum.New("@e", `[1, 2]`)) }},
		{"AddRule(@e,broken enum)", func(e *env) error { return e.root.AddRule("@e", enum.New("@ebad", `[1, `)) }},
		{"AddRule(@e,nil)", func(e *env) error { return e.root.AddRule("@e", nil) }},
		{"Check", func(e *env) error { return e.root.Check() }},
		{"Len", func(e *env) error { _, err := e.root.Len(); return err }},
		{"Example", func(e *env) error { _, err := e.root.Example(); return err }},
		{"t1.Check", func(e *env) error { return e.t1.Check() }},
	}
	var i int64
	var rec func(seq []int)
	run := func(rt string, seq []int) {
		var names []string
		for _, o := range seq {
			names = append(names, ops[o].name)
		}
		desc := "root=" + strconv.Quote(rt) + " calls=" + strings.Join(names, "; ")
		r.ord++
		r.desc = append(append(r.desc[:0], "api"...), 0)
		r.desc = append(r.desc, desc...)
		if !w.Begin(r.ord, r.desc) {
			return
		}
		w.S.Evaluations++
		w.S.Traces++
		w.S.Nontrivial++
		sink := r.mk("api", []byte(desc), nil)
		e := &env{root: jschema.New("root", rt), t1: jschema.New("@t", "{\n\t\"x\": @u // {optional: true}\n}"), t2: jschema.New("@u", `"s"`),
			broken: jschema.New("@b", "{\n\t\"k\": \n}"), re: jregex.New("@r", "/a+/"), badRe: jregex.New("@rbad", "/(/")}
		texts := map[string][]byte{"root": []byte(rt), "@t": []byte("{\n\t\"x\": @u // {optional: true}\n}"), "@u": []byte(`"s"`), "@b": []byte("{\n\t\"k\": \n}"),
			"@r": []byte("/a+/"), "@rbad": []byte("/(/"), "@e": []byte(`[1, 2]`), "@ebad": []byte(`[1, `)}
		for _, o := range seq {
			op := ops[o]
			call(sink, op.name, []byte(rt), texts, func() error { return op.f(e) })
		}
		call(sink, "Check", []byte(rt), texts, func() error { return e.root.Check() })
		call(sink, "Example", []byte(rt), texts, func() error { _, err := e.root.Example(); return err })
		call(sink, "GetAST", []byte(rt), texts, func() error { _, err := e.root.GetAST(); return err })
		call(sink, "UsedUserTypes", []byte(rt), texts, func() error { _, err := e.root.UsedUserTypes(); return err })
		call(sink, "Len", []byte(rt), texts, func() error { _, err := e.root.Len(); return err })
	}
	rec = func(seq []int) {
		i++
		if w.Mine(i) {
			for _, rt := range roots {
				run(rt, seq)
			}
		}
		if len(seq) == 3 || (i&0xff == 0 && w.OverBudget()) {
			return
		}
		for o := range ops {
			if r.inputsOnly && strings.Contains(ops[o].name, "nil") {
				continue
			}
			rec(append(append([]int{}, seq...), o))
		}
	}
	rec(nil)
	if w.Shard == 0 {
		w.Count("api.sequences", i)
	}
}

// stringFamily: quoted strings whose content mixes malformed UTF-8 bytes with
// ordinary bytes and escapes (every count of each up to a bound), in every
// place a string can stand. The unquoting code works on a buffer sized from the
// input length, so the counts - not the particular bytes - select its paths.
func (r *spaceRunner) stringFamily() {
	w := r.w
	var i int64
	for _, bad := range []string{"\x80", "\xe9", "\xff", "\xf0\x9f"} {
		for _, pre := range []string{"", "a", "abcdefghi"} {
			for k := 0; k <= 10; k++ {
				for _, unit := range []string{"a", `\n`, `\u0041`, `\ud83d\ude00`, "\u00e9"} {
					for m := 0; m <= 12; m++ {
						i++
						if !w.Mine(i) {
							continue
						}
						if i&0xff == 0 && w.OverBudget() {
							return
						}
						body := pre + strings.Repeat(bad, k) + strings.Repeat(unit, m)
						q := `"` + body + `"`
						r.bytesCase("enum", []byte("["+q+"]"))
						r.bytesCase("enum", []byte("["+q+", "+q+"]"))
						r.bytesCase("schema", []byte(q))
						r.bytesCase("schema", []byte("{"+q+": 1}"))
						r.bytesCase("schema", []byte(q+" // {enum: ["+q+"]}"))
						r.bytesCase("schema", []byte(q+" // {const: true}"))
						r.bytesCase("schema", []byte(`1 // {or: [{type: "string", regex: `+q+`}, {type: "integer"}]} - `+body))
						r.bytesCase("jsondoc", []byte(q))
						r.bytesCase("jsondoc", []byte("{"+q+":"+q+"}"))
						r.bytesCase("regex", []byte("/"+body+"/"))
						w.S.Nontrivial++
					}
				}
			}
		}
	}
	if w.Shard == 0 {
		w.Count("string_family.strings", i)
	}
}

// exponentGrid runs in its own shard: the large exponents are slow and two of them
// are expected to kill the worker (restarts are cheap here).
func (r *spaceRunner) exponentGrid() {
	for _, m := range []string{"1", "-1.5", "0.0", "9.99"} {
		for _, k := range []string{"0", "1", "17", "18", "19", "20", "99", "1000", "1000000"} {
			for _, sgn := range []string{"", "+", "-"} {
				for _, e := range []string{"e", "E"} {
					r.bytesCase("number", []byte(m+e+sgn+k))
				}
			}
		}
	}
	for _, k := range []string{"100000000", "-100000000", "99999999999999999999", "-99999999999999999999", "99999999999", "-99999999999"} {
		r.bytesCase("number", []byte("1e"+k))
		r.w.S.Nontrivial++
	}
	// exponents next to the limits of the machine integers
	for _, m := range []string{"1", "1.5", "12", "-0.25"} {
		for _, k := range []string{"9223372036854775807", "-9223372036854775807", "9223372036854775806", "9223372036854775808", "-9223372036854775808", "18446744073709551615"} {
			r.bytesCase("number", []byte(m+"e"+k))
			r.w.S.Nontrivial++
		}
	}
}

// meshFamily: n object types whose n optional properties refer to all n types (a
// small catalogue of entities that all know each other). The example builder lets a
// type occur twice on a path, so its output grows super-exponentially with n: 13 KB
// at n=4, 26 MB at n=6 - and at n=7 the process runs out of memory
// (KF-C02-example-explosion; n=7 is part of the thorough tier only, it takes two
// minutes to die).
func (r *spaceRunner) meshFamily() {
	maxN := 6
	if r.w.Thorough() {
		maxN = 7
	}
	for n := 2; n <= maxN; n++ {
		p := &project{Root: "@t0", Types: map[string]string{}}
		for i := 0; i < n; i++ {
			var props []string
			for j := 0; j < n; j++ {
				comma := ","
				if j == n-1 {
					comma = ""
				}
				props = append(props, fmt.Sprintf("\t\"p%d\": @t%d%s // {optional: true}", j, j, comma))
			}
			p.Types[fmt.Sprintf("@t%d", i)] = "{\n" + strings.Join(props, "\n") + "\n}"
		}
		r.projectCase("mesh", p)
		r.w.S.Nontrivial++
	}
}

// choiceMeshFamily: n types that are each a choice over all n types (with and
// without a scalar way out), reached through a key shortcut, a type rule, an or list
// (resolution of the actual type: linear since the fix recorded in known_findings) and
// as a value (the recursion checker follows every path: factorial,
// KF-C02-recursion-checker-factorial; its n=12 case is part of the thorough tier only,
// the watchdog needs two minutes to stop it).
func (r *spaceRunner) choiceMeshFamily() {
	mk := func(root string, n int, withS bool) *project {
		p := &project{Root: root, Types: map[string]string{"@s": `"s"`}}
		var names []string
		for i := 0; i < n; i++ {
			names = append(names, fmt.Sprintf("@t%d", i))
		}
		if withS {
			names = append(names, "@s")
		}
		for i := 0; i < n; i++ {
			p.Types[fmt.Sprintf("@t%d", i)] = strings.Join(names, " | ")
		}
		return p
	}
	for _, withS := range []bool{false, true} {
		for _, root := range []string{"{\n\t@t0: 1\n}", `"s" // {type: "@t0"}`, `"s" // {or: ["@t0", "@t1"]}`} {
			for _, n := range []int{2, 6, 13, 40} {
				r.projectCase("choice-mesh", mk(root, n, withS))
				r.w.S.Nontrivial++
			}
		}
		sizes := []int{2, 3, 6, 8}
		if r.w.Thorough() {
			sizes = append(sizes, 12)
		}
		for _, root := range []string{"@t0", "{\n\t\"k\": @t0\n}"} {
			for _, n := range sizes {
				r.projectCase("choice-mesh-value", mk(root, n, withS))
				r.w.S.Nontrivial++
			}
		}
	}
}

// graphFamily: <=3 mutually/self-referencing types, every subset registered.
func (r *spaceRunner) graphFamily() {
	w := r.w
	names := []string{"@main", "@a", "@b"}
	var forms []string
	for _, x := range names {
		forms = append(forms, x, `{"k": `+x+`}`, `{`+x+`: 1}`, `[`+x+`]`, `"s" // {type: "`+x+`"}`, `{} // {allOf: "`+x+`"}`, `{} // {additionalProperties: "`+x+`"}`, `{"": 1, `+x+`: 1}`)
		for _, y := range names {
			forms = append(forms, x+` | `+y, `1 // {or: ["`+x+`", "`+y+`"]}`)
		}
	}
	var i int64
	for _, fm := range forms {
		for _, fa := range forms {
			for _, fb := range forms {
				i++
				if !w.Mine(i) {
					continue
				}
				if i&0x3f == 0 && w.OverBudget() {
					return
				}
				for mask := 0; mask < 8; mask++ {
					p := &project{Root: fm, Types: map[string]string{}}
					if mask&1 != 0 {
						p.Types["@main"] = fm
					}
					if mask&2 != 0 {
						p.Types["@a"] = fa
					}
					if mask&4 != 0 {
						p.Types["@b"] = fb
					}
					r.projectCase("graph", p)
					w.S.Nontrivial++
				}
			}
		}
	}
	if w.Shard == 0 {
		w.Count("graph.type_forms", int64(len(forms)))
		w.Count("graph.projects", i*8)
	}
}

// harvestCorpus collects the string literals of the repository's own test files
// (at check time, from the current tree).
var corpusCache []string

func harvestCorpus() []string {
	if corpusCache != nil {
		return corpusCache
	}
	seen := map[string]bool{}
	fset := token.NewFileSet()
	for _, dir := range []string{"/repo/notations", "/repo/rules", "/repo/formats"} {
		filepath.Walk(dir, func(p string, info os.FileInfo, err error) error {
			if err != nil || info.IsDir() || !strings.HasSuffix(p, "_test.go") {
				return nil
			}
			f, err := parser.ParseFile(fset, p, nil, 0)
			if err != nil {
				return nil
			}
			ast.Inspect(f, func(n ast.Node) bool {
				if bl, ok := n.(*ast.BasicLit); ok && bl.Kind == token.STRING {
					if s, err := strconv.Unquote(bl.Value); err == nil && len(s) > 0 && len(s) <= 300 {
						seen[s] = true
					}
				}
				return true
			})
			return nil
		})
	}
	for s := range seen {
		corpusCache = append(corpusCache, s)
	}
	sort.Strings(corpusCache)
	return corpusCache
}

type corpusText struct {
	text    string
	entries []string // entry points that accept it
}

var validCorpusCache []corpusText

// validCorpus: the harvested literals that at least one entry point accepts.
func validCorpus() []corpusText {
	if validCorpusCache != nil {
		return validCorpusCache
	}
	for _, t := range harvestCorpus() {
		var ct corpusText
		ct.text = t
		in := []byte(t)
		guard(func() {
			if jschema.New("c", in).Check() == nil {
				ct.entries = append(ct.entries, "schema")
			}
		})
		guard(func() {
			if enum.New("c", in).Check() == nil {
				ct.entries = append(ct.entries, "enum")
			}
		})
		guard(func() {
			if jregex.New("c", in).Check() == nil {
				ct.entries = append(ct.entries, "regex")
			}
		})
		guard(func() {
			if jdoc.New("c", in).Check() == nil {
				ct.entries = append(ct.entries, "jsondoc")
			}
		})
		if len(ct.entries) > 0 && len(strings.TrimSpace(t)) > 0 {
			validCorpusCache = append(validCorpusCache, ct)
		}
	}
	return validCorpusCache
}

func c02OnAbort(desc []byte, how string) *core.Violation {
	entry, in := string(desc), []byte(nil)
	if i := strings.IndexByte(entry, 0); i >= 0 {
		entry, in = entry[:i], desc[i+1:]
	}
	clause := "no-process-abort"
	if how == "hang" {
		clause = "bounded-time"
	}
	v := bv(clause, entry, in, "the worker process died ("+how+") while executing this case", map[string]string{"how": how})
	if strings.HasPrefix(entry, "project:") {
		v.Witness = append([]byte(nil), in...)
		v.InputHex = ""
	}
	return &v
}

func replayBundle(w *core.W, v *core.Violation, mk sinkMaker) {
	if strings.HasPrefix(v.Entry, "project:") {
		var p project
		if stdjson.Unmarshal(v.Witness, &p) != nil {
			return
		}
		bundleProject(&p, mk(v.Entry, []byte(p.describe()), v.Witness))
		return
	}
	if f, ok := entryBundles[v.Entry]; ok {
		in := inputBytes(v)
		f(in, mk(v.Entry, in, nil))
	}
}

func init() {
	Register(&Prop{
		ID:        "C02",
		Technique: "bounded exhaustive token strings + explicit-state search over the three real scanners and the number recogniser (every state x byte class x end of input) + every truncation of the test corpus + exhaustive small reference graphs, each through the full call bundle in crash-contained worker processes",
		Rule: "per entry point (schema, enum rule, regex, JSON document, number): all strings of <= N tokens; all reachable abstract scanner states x byte classes (both scanner modes); every prefix of every string literal of the repository's tests; all projects of <=3 self/mutually referencing types from 10 reference forms x every registered subset; exponent grid; a nesting ladder (arrays / objects / both, depth 1..4000, thorough 100000, as schema and as JSON document); 21 formatter-significant fragments in each of 38 places whose diagnostics quote user text. " +
			"Plain-text documents: all strings of <= 4 tokens. Bundle: Len, Check, Example, GetAST, UsedUserTypes, AddType/AddRule, NextLexeme loop, NewNumber, GuessSchemaType, OpenAPI of accepted schemas. non-trivial = distinct inputs executed",
		Bounds: func(tier string) map[string]any {
			b := c02Bounds(tier)
			return map[string]any{"schema_tokens": b.schemaN, "enum_tokens": b.enumN, "regex_bytes": b.regexN, "json_tokens": b.jsonN, "number_bytes": b.numberN,
				"schema_open_lexemes": b.schemaD, "enum_depth": b.enumD, "json_open_lexemes": b.jsonD, "watchdog_s": 120, "max_stack_MiB": 64}
		},
		Shards: func(string) int { return 17 },
		Run: func(w *core.W) {
			r := &spaceRunner{w: w, mk: func(entry string, in []byte, wit []byte) callSink { return c02Sink(w, entry, in, wit) }}
			if w.Shard == 16 {
				r.exponentGrid()
				r.nestingLadder()
				r.meshFamily()
				r.choiceMeshFamily()
				return
			}
			w.Of = 16
			r.run(c02Bounds(w.Tier))
		},
		Replay: func(w *core.W, v *core.Violation) {
			replayBundle(w, v, func(entry string, in []byte, wit []byte) callSink { return c02Sink(w, entry, in, wit) })
		},
		OnAbort: c02OnAbort,
		Assumptions: []string{
			"'bounded time' = no single call bundle exceeds the 120 s watchdog (normal cases take microseconds)",
			"inputs needing more open lexemes than the depth bound, or longer than the token bound, are outside the explored space",
			"worker processes run with a 64 MiB stack limit and an 8 GiB address-space limit; exceeding either is reported as a process abort",
		},
	})
	Register(&Prop{
		ID:        "C16",
		Technique: "same exhaustive spaces as C02 (token strings, scanner state graph, corpus truncations, reference graphs); every returned error is judged by a diagnostic well-formedness oracle with an independent line/column reference",
		Rule:      "every error returned by any call of the bundle on any enumerated input: has a numeric code, is not a runtime error / internal-failure code / struct dump, renders without panic, and when positioned: index inside the text it refers to, line/column equal to the reference for single-convention texts, rendering quotes the line. non-trivial = errors judged",
		Bounds: func(tier string) map[string]any {
			b := c02Bounds(tier)
			return map[string]any{"schema_tokens": b.schemaN, "enum_tokens": b.enumN, "regex_bytes": b.regexN, "json_tokens": b.jsonN, "schema_open_lexemes": b.schemaD}
		},
		Run: func(w *core.W) {
			r := &spaceRunner{w: w, inputsOnly: true, mk: func(entry string, in []byte, wit []byte) callSink { return c16Sink(w, entry, in, wit) }}
			r.run(c02Bounds(w.Tier))
			r.mutationFamily()
			r.violationFamily()
		},
		Replay: func(w *core.W, v *core.Violation) {
			replayBundle(w, v, func(entry string, in []byte, wit []byte) callSink { return c16Sink(w, entry, in, wit) })
		},
		Assumptions: []string{
			"whether a designed code such as 801 counts as 'internal failure' is not decided; only code 1 (Runtime Failure) and wrapped Go runtime errors are",
			"line/column are compared only for texts with a single newline convention and indices that do not sit on a terminator byte",
		},
	})
}

// violationFamily (C16): a rule violation (or a missing type) placed inside a
// registered type that the root reaches through every kind of reference, incl.
// inheritance (the offending node then lives in another type's text).
func (r *spaceRunner) violationFamily() {
	w := r.w
	bad := []string{"{\n\t\"pad\": true,\n\t\"k\": 5 // {min: 9}\n}", "{\n\n\t\"k\": \"abc\" // {maxLength: 1}\n}", "{\r\n\t\"k\": @gone\r\n}", "{\n\t\"kkkkkkkkkkkk\": @ok | @gone\n}", "{\n\t\"k\": 1 // {or: [{type: \"string\"}, {type: \"boolean\"}]}\n}"}
	viaZ := []string{`@z`, "{ // {allOf: \"@z\"}\n\t\"own\": 1\n}", "{} // {allOf: [\"@ok2\", \"@z\"]}", "[\n\t@z\n]", "{\n\t\"p\": @z | @ok\n}", "{} // {additionalProperties: \"@z\"}", "{\n\t@ok: @z\n}"}
	roots := []string{`@a`, "{\n\t\"r\": @a\n}", "{} // {allOf: \"@a\"}"}
	var i int64
	for _, b := range bad {
		for _, a := range viaZ {
			for _, root := range roots {
				i++
				if !w.Mine(i) {
					continue
				}
				types := map[string]string{"@a": a, "@z": b, "@ok": `"s"`, "@ok2": "{\n\t\"o2\": 1\n}"}
				r.projectCase("violations", &project{Root: root, Types: types})
				// the same project with every type body filed under one name
				r.projectCase("violations", &project{Root: root, Types: types, TypeFile: "types.jst"})
				// ... and with no file names at all
				r.projectCase("violations", &project{Root: root, Types: types, TypeFile: unnamedFiles})
				w.S.Nontrivial++
			}
		}
	}
	if w.Shard == 0 {
		w.Count("violation_family.projects", i)
	}
}

// quotedTextFamily: diagnostics quote the user's own text (a key, a rule name, a type name,
// an enum value, a string checked against a format, a regular expression). Every such place
// is filled with fragments that mean something to a formatter or to a renderer.
func (r *spaceRunner) quotedTextFamily() {
	w := r.w
	frags := []string{`%`, `%!`, `%!s`, `%s`, `%d`, `%v`, `%%`, `%!(EXTRA string=x)`, `%!s(MISSING)`, `a%!b`, `%[1]s`, `%*d`, `{0}`, `<nil>`, `\\n`, `\\"`, `\\u0025\\u0021`, "\t", `$1`, `é%!`, `%!é`}
	places := []struct{ entry, text string }{
		{"schema", `{"F": 1, "F": 2}`}, {"schema", `1 // {"F": 1}`}, {"schema", `1 // {F: 1}`}, {"schema", `1 // {type: "F"}`}, {"schema", `"x" // {or: ["F", "string"]}`},
		{"schema", `"x" // {or: [{type: "F"}, {type: "string"}]}`}, {"schema", `{} // {allOf: "F"}`}, {"schema", `{} // {additionalProperties: "F"}`}, {"schema", `"a" // {enum: ["F", "F"]}`},
		{"schema", `"F" // {type: "email"}`}, {"schema", `"F" // {type: "uri"}`}, {"schema", `"F" // {type: "date"}`}, {"schema", `"F" // {type: "datetime"}`}, {"schema", `"F" // {type: "uuid"}`},
		{"schema", `"F" // {regex: "^z$"}`}, {"schema", `"x" // {regex: "(F"}`}, {"schema", `"F" // {enum: ["a"]}`}, {"schema", `"F" // {type: "integer"}`}, {"schema", `"F" // {minLength: 99}`},
		{"schema", `"F" // {type: "@t"}`}, {"schema", `@F`}, {"schema", `@a | @F`}, {"schema", "{\n\t@F: 1\n}"}, {"schema", `"x" // {enum: @F}`}, {"schema", `1 // {min: "F"}`}, {"schema", `1 // {min: F}`},
		{"schema", `1 // {serializeFormat: "F"}`}, {"schema", `F`}, {"schema", `"x" F`}, {"schema", `1 // F`},
		{"enum", `["F", "F"]`}, {"enum", `["a", F]`}, {"enum", `F`},
		{"regex", `/(F/`}, {"regex", `/F[/`}, {"regex", `/F`},
		{"jsondoc", `{"F": tru}`}, {"jsondoc", `F`},
	}
	var i int64
	for _, pl := range places {
		for _, f := range frags {
			i++
			if !w.Mine(i) {
				continue
			}
			r.bytesCase(pl.entry, []byte(strings.ReplaceAll(pl.text, "F", f)))
			w.S.Nontrivial++
		}
	}
	if w.Shard == 0 {
		w.Count("quoted_text.cases", i)
	}
}

// mutationFamily (C16): single-token mutations of corpus texts, re-rendered with LF, CRLF and CR.
func (r *spaceRunner) mutationFamily() {
	w := r.w
	muts := []string{"", `"`, `{`, `}`, `[`, `]`, `,`, `:`, `1`, `x`, `@`, `/`, `#`, "\n", `e`, `\`}
	maxLen := 80
	if w.Thorough() {
		maxLen = 200
	}
	var i int64
	for _, ct := range validCorpus() {
		if len(ct.text) > maxLen {
			continue
		}
		var entries []string
		for _, e := range ct.entries {
			if e == "schema" || e == "enum" {
				entries = append(entries, e)
			}
		}
		if len(entries) == 0 {
			continue
		}
		norm := strings.ReplaceAll(strings.ReplaceAll(ct.text, "\r\n", "\n"), "\r", "\n")
		nls := []string{"\n", "\r\n", "\r"}
		if !strings.Contains(norm, "\n") {
			nls = nls[:1]
		}
		for _, nl := range nls {
			base := strings.ReplaceAll(norm, "\n", nl)
			for pos := 0; pos < len(base); pos++ {
				i++
				if !w.Mine(i) {
					continue
				}
				if i&0xff == 0 && w.OverBudget() {
					return
				}
				for _, e := range entries {
					for _, m := range muts {
						// replace the byte at pos by m ("" = delete)
						r.bytesCase(e, []byte(base[:pos]+m+base[pos+1:]))
					}
					r.bytesCase(e, []byte(base[:pos]+base[pos:pos+1]+base[pos:])) // duplicate
				}
				w.S.Nontrivial++
			}
		}
	}
	if w.Shard == 0 {
		w.Count("mutation.positions", i)
	}
}

var _ = fmt.Sprint
