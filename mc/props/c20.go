package props

import (
	"fmt"
	"sort"
	"strings"

	schema "github.com/jsightapi/jsight-schema-core"
	jbytes "github.com/jsightapi/jsight-schema-core/bytes"
	jnum "github.com/jsightapi/jsight-schema-core/json"
	jdoc "github.com/jsightapi/jsight-schema-core/formats/json"
	"github.com/jsightapi/jsight-schema-core/notations/jschema"

	"verifmc/core"
	"verifmc/seq"
)

// C20 — type vocabulary helpers are coherent and deterministic.

var c20Types = []schema.SchemaType{
	schema.SchemaTypeString, schema.SchemaTypeInteger, schema.SchemaTypeFloat, schema.SchemaTypeDecimal,
	schema.SchemaTypeBoolean, schema.SchemaTypeObject, schema.SchemaTypeArray, schema.SchemaTypeNull,
	schema.SchemaTypeEmail, schema.SchemaTypeURI, schema.SchemaTypeUUID, schema.SchemaTypeDate, schema.SchemaTypeDateTime,
	schema.SchemaTypeEnum, schema.SchemaTypeMixed, schema.SchemaTypeAny, schema.SchemaTypeComment,
}

var c20Tokens = toks(`"`, `a`, `.`, `1`, `0`, `-`, `e`, `E`, `+`, `true`, `false`, `null`, `\`, `{`, `[`)

func c20N(tier string) int {
	if tier == "thorough" {
		return 7
	}
	return 6
}

func init() {
	Register(&Prop{
		ID:        "C20",
		Technique: "complete enumeration of the finite type vocabulary (all pairs, all edit-distance-1 near misses) + bounded exhaustive enumeration of literal texts compared with the scanner's classifier",
		Rule: "all 18x18 SchemaType pairs; IsValidType on every documented name and every edit-distance-1 variant over [a-zA-Z _0]; every token string of <= N tokens over a 15-token literal alphabet: GuessSchemaType vs the schema scanner's classification (AST type of the accepted one-literal schema and json.Guess); " +
			"non-trivial = vocabulary pairs + literal texts accepted by the schema scanner as a scalar",
		Bounds: func(tier string) map[string]any {
			return map[string]any{"literal_max_tokens": c20N(tier), "repeat_per_literal": 24}
		},
		Run:    c20Run,
		Replay: c20Replay,
		Assumptions: []string{
			"the documented vocabulary is the set of SchemaType constants of type.go; the documented families are those of the IsEqualSoft doc comment",
			"order-independence of GuessSchemaType is decided structurally in the instrumented build (C09, map-order exploration); here every literal is classified 24 times",
		},
	})
}

func family(t schema.SchemaType) string {
	switch t {
	case schema.SchemaTypeFloat, schema.SchemaTypeDecimal:
		return "float"
	case schema.SchemaTypeString, schema.SchemaTypeEmail, schema.SchemaTypeURI, schema.SchemaTypeUUID, schema.SchemaTypeDate, schema.SchemaTypeDateTime:
		return "string"
	case schema.SchemaTypeEnum, schema.SchemaTypeMixed, schema.SchemaTypeAny:
		return "*"
	}
	return string(t)
}

func c20Vocabulary(w *core.W) {
	all := append([]schema.SchemaType{schema.SchemaTypeUndefined}, c20Types...)
	for _, a := range all {
		for _, b := range all {
			c20PairCase(w, a, b)
		}
	}
	// IsValidType
	names := map[string]bool{}
	for _, t := range c20Types {
		names[string(t)] = true
	}
	cands := map[string]bool{"": true, "number": true, "int": true, "reference": true, "bool": true, "str": true, "double": true, "undefined": true, "@a": true}
	alpha := "abcdefghijklmnopqrstuvwxyzABCDEFGHIJKLMNOPQRSTUVWXYZ _0"
	for n := range names {
		cands[n] = true
		cands[strings.ToUpper(n)] = true
		cands[" "+n] = true
		cands[n+" "] = true
		cands[`"`+n+`"`] = true
		for i := 0; i <= len(n); i++ {
			if i < len(n) {
				cands[n[:i]+n[i+1:]] = true // deletion
			}
			for _, c := range alpha {
				cands[n[:i]+string(c)+n[i:]] = true // insertion
				if i < len(n) {
					cands[n[:i]+string(c)+n[i+1:]] = true // substitution
				}
			}
		}
	}
	var list []string
	for c := range cands {
		list = append(list, c)
	}
	sort.Strings(list)
	for _, c := range list {
		c20ValidCase(w, c, names[c])
	}
	// membership predicates: IsOneOf is plain membership (the undefined type is a member of
	// nothing), IsScalar holds exactly for the types whose values are JSON scalars
	for _, t := range all {
		w.S.Evaluations++
		if t.IsOneOf() {
			w.Violate(core.Violation{Clause: "membership-predicates", Input: string(t), Detail: "IsOneOf() with an empty list is true"})
		}
		for _, a := range all {
			for _, b := range all {
				want := t != schema.SchemaTypeUndefined && (t == a || t == b)
				if t.IsOneOf(a, b) != want {
					w.Violate(core.Violation{Clause: "membership-predicates", Input: fmt.Sprintf("%q in {%q, %q}", t, a, b), Detail: fmt.Sprintf("IsOneOf=%v, membership says %v", !want, want)})
				}
			}
		}
		scalar := false
		switch family(t) {
		case "string", "float", "integer", "boolean", "null":
			scalar = true
		}
		if t == schema.SchemaTypeEnum {
			scalar = true // the values of an enum are scalars
		}
		if t.IsScalar() != scalar {
			w.Violate(core.Violation{Clause: "membership-predicates", Input: string(t), Detail: fmt.Sprintf("IsScalar()=%v, token type %q", t.IsScalar(), t.ToTokenType())})
		}
	}
	// token types
	// a JSON type without a value kind (the undefined type, a number outside the table) has
	// no token type, like the undefined schema type
	for _, jt := range []jnum.Type{jnum.TypeUndefined, jnum.Type(100), jnum.Type(255)} {
		w.S.Evaluations++
		if got, want := jt.ToTokenType(), schema.SchemaType(jt.String()).ToTokenType(); got != want || got != schema.SchemaTypeUndefined.ToTokenType() {
			w.Violate(core.Violation{Clause: "token-types-agree", Input: fmt.Sprintf("json.Type(%d) %q", uint8(jt), jt.String()), Detail: fmt.Sprintf("json type says %q, SchemaType(%q).ToTokenType()=%q, the undefined schema type has %q", got, jt.String(), want, schema.SchemaTypeUndefined.ToTokenType())})
		}
	}
	for _, jt := range jnum.AllTypes {
		w.S.Evaluations++
		st := schema.SchemaType(jt.String())
		if st.ToTokenType() != jt.ToTokenType() || st.ToTokenType() == "" {
			w.Violate(core.Violation{Clause: "token-types-agree", Input: jt.String(), Detail: fmt.Sprintf("SchemaType(%q).ToTokenType()=%q, json type says %q", st, st.ToTokenType(), jt.ToTokenType())})
		}
	}
	for _, t := range c20Types {
		w.S.Evaluations++
		tok := t.ToTokenType()
		want := map[string]string{"float": "number", "string": "string"}[family(t)]
		if t == schema.SchemaTypeInteger {
			want = "number"
		}
		if want != "" && tok != want && !(tok == "" && family(t) == "string" && t != schema.SchemaTypeString) {
			w.Violate(core.Violation{Clause: "token-types-agree", Input: string(t), Detail: fmt.Sprintf("ToTokenType()=%q, family token type is %q", tok, want)})
		}
	}
}

func c20PairCase(w *core.W, a, b schema.SchemaType) {
	w.S.Evaluations++
	w.S.Nontrivial++
	w.S.Transitions++
	got := a.IsEqualSoft(b)
	back := b.IsEqualSoft(a)
	in := fmt.Sprintf("%q ~ %q", a, b)
	if got != back {
		w.Violate(core.Violation{Clause: "soft-eq-symmetric", Input: in, Detail: fmt.Sprintf("a~b=%v but b~a=%v", got, back), Sig: map[string]string{"pair": pairKey(a, b)}})
	}
	if a == b && a != schema.SchemaTypeUndefined && !got {
		w.Violate(core.Violation{Clause: "soft-eq-reflexive", Input: in, Detail: "defined type not related to itself"})
	}
	if a == schema.SchemaTypeUndefined || b == schema.SchemaTypeUndefined {
		if got {
			w.Violate(core.Violation{Clause: "soft-eq-families", Input: in, Detail: "the undefined type is related to something"})
		}
		return
	}
	if a == schema.SchemaTypeComment || b == schema.SchemaTypeComment {
		return // not a value type; only reflexivity and symmetry are claimed
	}
	want := family(a) == family(b) || family(a) == "*" || family(b) == "*"
	if got != want {
		w.Violate(core.Violation{Clause: "soft-eq-families", Input: in, Detail: fmt.Sprintf("IsEqualSoft=%v, documented families say %v", got, want), Sig: map[string]string{"pair": pairKey(a, b)}})
	}
}

func pairKey(a, b schema.SchemaType) string {
	x, y := string(a), string(b)
	if x > y {
		x, y = y, x
	}
	return x + "~" + y
}

func c20ValidCase(w *core.W, name string, want bool) {
	w.S.Evaluations++
	w.S.Transitions++
	if got := schema.IsValidType(name); got != want {
		w.Violate(core.Violation{Clause: "is-valid-type", Input: fmt.Sprintf("%q", name), InputHex: fmt.Sprintf("%x", name), Detail: fmt.Sprintf("IsValidType=%v, documented vocabulary says %v", got, want)})
	}
}

// c20Literal compares GuessSchemaType with the scanner's classification.
func c20Literal(w *core.W, in []byte, entry string) {
	w.S.Evaluations++
	w.S.Traces++
	w.S.Transitions += int64(len(in))
	var want string
	if s := string(in); s == "{" || s == "[" {
		want = map[string]string{"{": "object", "[": "array"}[s]
	} else {
		var ast schema.ASTNode
		var err error
		if rec, _ := guard(func() { ast, err = jschema.New("lit", in).GetAST() }); rec != nil || err != nil {
			w.Class("not-a-schema")
			return
		}
		if ast.TokenType == schema.TokenTypeObject || ast.TokenType == schema.TokenTypeArray || ast.TokenType == schema.TokenTypeShortcut {
			w.Class("not-a-scalar")
			return
		}
		if string(in) != strings.TrimSpace(string(in)) || strings.ContainsAny(string(in), "/#") {
			return
		}
		want = ast.SchemaType
		var jt jnum.Type
		if rec, _ := guard(func() { jt = jnum.Guess(jbytes.NewBytes(in)).JsonType() }); rec != nil {
			w.Violate(bv("classifier-total", entry, in, fmt.Sprintf("json.Guess(...).JsonType() panicked on a literal the scanner accepted: %v", rec), nil))
			return
		}
		if jt.String() != want {
			w.Violate(bv("classifier-coherent", entry, in, fmt.Sprintf("AST says %q, json.Guess says %q", want, jt.String()), nil))
			return
		}
	}
	w.Class("literal:" + want)
	w.S.Nontrivial++
	w.Sample(string(in))
	for i := 0; i < 24; i++ {
		var got schema.SchemaType
		var err error
		if rec, site := guard(func() { got, err = schema.GuessSchemaType(in) }); rec != nil {
			w.Violate(bv("no-panic", entry, in, fmt.Sprintf("GuessSchemaType panicked: %v", rec), map[string]string{"site": site}))
			return
		}
		if err != nil || string(got) != want {
			shape := "other"
			if len(in) > 0 && in[0] == '"' {
				shape = "string"
				if strings.ContainsAny(string(in), ".") {
					shape = "string-with-dot"
				}
			}
			w.Violate(bv("guess-equals-scanner", entry, in, fmt.Sprintf("GuessSchemaType=%q err=%v on call %d, scanner classifies it as %q", got, err, i+1, want), map[string]string{"want": want, "shape": shape}))
			return
		}
	}
}

// c20Pairs: the answer for y must not depend on the literal guessed before it.
func c20Pairs(w *core.W) {
	lits := []string{`1`, `1.0`, `0.00`, `-7.0`, `1.5`, `1e2`, `25E-1`, `1.0e1`, `"a.b"`, `"1e5"`, `"x"`, `true`, `null`, `{`, `[`, `x`, `-0`, `1.`, ``}
	alone := map[string]string{}
	for _, y := range lits {
		t, err := schema.GuessSchemaType([]byte(y))
		alone[y] = fmt.Sprintf("%s|%v", t, err != nil)
	}
	for _, x := range lits {
		for _, y := range lits {
			for _, z := range lits[:6] {
				w.S.Evaluations++
				schema.GuessSchemaType([]byte(x))
				schema.GuessSchemaType([]byte(z))
				t, err := schema.GuessSchemaType([]byte(y))
				if got := fmt.Sprintf("%s|%v", t, err != nil); got != alone[y] {
					w.Violate(bv("guess-independent-of-history", "pairs", []byte(x+" ; "+z+" ; "+y), fmt.Sprintf("GuessSchemaType(%q) = %s after guessing %q and %q, %s when asked first", y, got, x, z, alone[y]), nil))
					return
				}
			}
		}
	}
}

var c20Boundary = []string{"2147483647", "2147483648", "4294967295", "4294967296", "9007199254740992", "9007199254740993", "9223372036854775807", "9223372036854775808", "9223372036854775809",
	"18446744073709551615", "18446744073709551616", "99999999999999999999", "123456789012345678901234567890", "0", "1"}

// c20JSONLiteral: a scalar the JSON document scanner accepts (exponent forms included, which
// the schema scanner refuses) is classified by json.Guess - the classifier the checker uses
// for literal values - and by GuessSchemaType in the same way.
func c20JSONLiteral(w *core.W, in []byte, entry string) {
	w.S.Evaluations++
	w.S.Traces++
	w.S.Transitions += int64(len(in))
	var derr error
	if rec, _ := guard(func() { derr = jdoc.New("lit", in).Check() }); rec != nil || derr != nil {
		w.Class("not-json")
		return
	}
	w.S.Nontrivial++
	var jt jnum.Type
	if rec, site := guard(func() { jt = jnum.Guess(jbytes.NewBytes(in)).JsonType() }); rec != nil {
		w.Violate(bv("classifier-total", entry, in, fmt.Sprintf("json.Guess(...).JsonType() panicked on a literal the JSON scanner accepted: %v", rec), map[string]string{"site": site, "shape": c20Shape(in)}))
		return
	}
	want := jt.String()
	w.Class("json-literal:" + want)
	for i := 0; i < 8; i++ {
		var got schema.SchemaType
		var err error
		if rec, site := guard(func() { got, err = schema.GuessSchemaType(in) }); rec != nil {
			w.Violate(bv("no-panic", entry, in, fmt.Sprintf("GuessSchemaType panicked: %v", rec), map[string]string{"site": site}))
			return
		}
		if err != nil || string(got) != want {
			w.Violate(bv("guess-equals-scanner", entry, in, fmt.Sprintf("GuessSchemaType=%q err=%v on call %d, json.Guess classifies it as %q", got, err, i+1, want), map[string]string{"want": want, "shape": c20Shape(in)}))
			return
		}
	}
}

// c20Shape: which parts a number literal has.
func c20Shape(in []byte) string {
	s := string(in)
	shape := "number"
	if strings.TrimLeft(strings.TrimLeft(s, "-"), "0") != strings.TrimLeft(s, "-") && !strings.ContainsAny(s, ".") && strings.ContainsAny(s, "eE") {
		shape = "zero-with-exponent"
	}
	if strings.Contains(s, ".") {
		shape += "+fraction"
	}
	if strings.Contains(s, "e") {
		shape += "+e"
	}
	if strings.Contains(s, "E") {
		shape += "+E"
	}
	return shape
}

func c20Run(w *core.W) {
	if w.Shard == 0 {
		c20Vocabulary(w)
		c20Pairs(w)
	}
	if w.Shard == 0 {
		// numerals at the limits of the machine integers and far beyond them
		for _, lit := range c20Boundary {
			for _, sign := range []string{"", "-"} {
				for _, frac := range []string{"", ".0", ".5", ".50"} {
					c20Literal(w, []byte(sign+lit+frac), "boundary")
				}
			}
		}
	}
	if w.Shard == 1%w.Of {
		// JSON number literals with every combination of sign, integer part, fraction and exponent
		for _, sign := range []string{"", "-"} {
			for _, ip := range []string{"0", "2", "10", "25", "12", "100"} {
				for _, frac := range []string{"", ".0", ".5", ".50", ".34", ".00", ".05"} {
					for _, ex := range []string{"", "e0", "E0", "e1", "E1", "e+1", "E+1", "e-1", "E-1", "e2", "E2", "e-2", "E-2", "e10", "E-10", "e01"} {
						c20JSONLiteral(w, []byte(sign+ip+frac+ex), "json-literals")
					}
				}
			}
		}
		for _, lit := range []string{`"a"`, `"a.b"`, `"1e5"`, `true`, `false`, `null`, `"\u0041"`, `""`} {
			c20JSONLiteral(w, []byte(lit), "json-literals")
		}
	}
	e := &seq.Enum{Tokens: c20Tokens, N: c20N(w.Tier), W: w}
	e.Run(func(s []byte, ntok int, own bool) bool {
		if own && ntok > 0 {
			c20Literal(w, s, "seq")
		}
		return false
	})
	w.S.States += e.Nodes
}

func c20Replay(w *core.W, v *core.Violation) {
	switch v.Clause {
	case "soft-eq-symmetric", "soft-eq-reflexive", "soft-eq-families":
		var a, b string
		fmt.Sscanf(v.Input, "%q ~ %q", &a, &b)
		c20PairCase(w, schema.SchemaType(a), schema.SchemaType(b))
	case "is-valid-type":
		name := string(inputBytes(v))
		names := map[string]bool{}
		for _, t := range c20Types {
			names[string(t)] = true
		}
		c20ValidCase(w, name, names[name])
	case "token-types-agree":
		c20Vocabulary(w)
	case "guess-independent-of-history":
		c20Pairs(w)
	default:
		c20Literal(w, inputBytes(v), v.Entry)
	}
}
