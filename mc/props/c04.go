package props

import (
	stdjson "encoding/json"
	"fmt"
	"math/big"
	"strings"

	schema "github.com/jsightapi/jsight-schema-core"

	"verifmc/core"
	"verifmc/gen"
	"verifmc/ref"
)

// C04 — GetAST() is exactly what the source says.
// The expected tree is derived from the model that was printed; the actual tree is
// rendered into the same canonical text and the two are compared.

var c04Unsigned = map[string]bool{"minLength": true, "maxLength": true, "minItems": true, "maxItems": true, "precision": true}
var c04Bool = map[string]bool{"const": true, "nullable": true, "optional": true, "exclusiveMinimum": true, "exclusiveMaximum": true}

func scalarTok(v ref.RV) string {
	switch v.Kind {
	case 's':
		return schema.TokenTypeString
	case 'n':
		return schema.TokenTypeNumber
	case 'b':
		return schema.TokenTypeBoolean
	case 'z':
		return schema.TokenTypeNull
	case 'r':
		return schema.TokenTypeShortcut
	}
	return "?"
}

func canonUint(s string) string {
	n, ok := new(big.Int).SetString(s, 10)
	if !ok {
		return s
	}
	return n.String()
}

// expRule: canonical text of the expected RuleASTNode for rule `name` with value v.
func expRule(name string, v ref.RV) string {
	switch {
	case name == "min" || name == "max":
		return "number:" + v.Text
	case c04Unsigned[name]:
		return "number:" + canonUint(v.Text)
	case c04Bool[name]:
		return "boolean:" + v.Text
	case name == "regex":
		return "string:" + v.Text
	case name == "type":
		if strings.HasPrefix(v.Text, "@") {
			return "reference:" + v.Text
		}
		return "string:" + v.Text
	case name == "enum":
		if v.Kind == 'r' {
			return "reference:" + v.Text
		}
		var items []string
		for _, it := range v.Items {
			items = append(items, scalarTok(it)+":"+it.Text)
		}
		return "array[" + strings.Join(items, ",") + "]"
	case name == "allOf":
		if v.Kind == 's' {
			return "reference:" + v.Text
		}
		var items []string
		for _, it := range v.Items {
			items = append(items, "reference:"+it.Text)
		}
		return "array[" + strings.Join(items, ",") + "]"
	case name == "additionalProperties":
		if v.Kind == 'b' {
			return "boolean:" + v.Text
		}
		return "string:" + v.Text
	case name == "or":
		var items []string
		for _, it := range v.Items {
			switch it.Kind {
			case 's':
				if strings.HasPrefix(it.Text, "@") {
					items = append(items, "reference:"+it.Text)
				} else {
					items = append(items, "string:"+it.Text)
				}
			case 'o':
				var props []string
				for i, k := range it.Keys {
					props = append(props, k+"="+expRule(k, it.Items[i]))
				}
				items = append(items, "object{"+strings.Join(props, ";")+"}")
			}
		}
		return "array[" + strings.Join(items, ",") + "]"
	}
	return scalarTok(v) + ":" + v.Text
}

// actRule renders an actual RuleASTNode into the same canonical text.
func actRule(name string, r schema.RuleASTNode) string {
	switch r.TokenType {
	case schema.TokenTypeArray:
		var items []string
		for _, it := range r.Items {
			items = append(items, actRule("", it))
		}
		return "array[" + strings.Join(items, ",") + "]"
	case schema.TokenTypeObject:
		var props []string
		if r.Properties != nil {
			r.Properties.EachSafe(func(k string, v schema.RuleASTNode) { props = append(props, k+"="+actRule(k, v)) })
		}
		return "object{" + strings.Join(props, ";") + "}"
	}
	extra := ""
	if len(r.Items) > 0 || (r.Properties != nil && r.Properties.Len() > 0) {
		extra = "+children"
	}
	if c04Unsigned[name] {
		return r.TokenType + ":" + canonUint(r.Value) + extra
	}
	return r.TokenType + ":" + r.Value + extra
}

func expNode(n *gen.SNode, key string) (string, error) {
	var b strings.Builder
	tok, val := "", ""
	var gen0 []string
	switch n.Kind {
	case 'l':
		tok, val = tokenTypeOfLit(n.Lit)
	case 'o':
		tok = schema.TokenTypeObject
	case 'a':
		tok = schema.TokenTypeArray
	case 'r':
		tok = schema.TokenTypeShortcut
		names := strings.Split(n.Lit, "|")
		for i := range names {
			names[i] = strings.TrimSpace(names[i])
		}
		// the names as written, one blank on either side of the bars (the spacing of a
		// choice is presentation: C14)
		val = strings.Join(names, " | ")
		if len(names) == 1 {
			gen0 = append(gen0, "type=reference:"+names[0])
		} else {
			var items []string
			for _, nm := range names {
				items = append(items, "string:"+nm)
			}
			gen0 = append(gen0, "or=array["+strings.Join(items, ",")+"]")
		}
	}
	isShortcut := strings.HasPrefix(key, "@")
	dkey := key
	if !isShortcut && key != "" {
		dkey, _ = ref.DecodeString([]byte(key))
	}
	fmt.Fprintf(&b, "(%s key=%q sc=%v val=%q note=%q rules=[", tok, dkey, isShortcut, val, strings.Trim(n.Note, " \t\r\n"))
	rules := append([]string{}, gen0...)
	for _, r := range n.Rules {
		v, err := ref.ParseRuleValue(r.Val)
		if err != nil {
			return "", err
		}
		rules = append(rules, r.Name+"="+expRule(r.Name, v))
	}
	b.WriteString(strings.Join(rules, " | "))
	b.WriteString("] children=[")
	for i, c := range n.Items {
		k := ""
		if n.Kind == 'o' {
			k = n.Keys[i]
		}
		s, err := expNode(c, k)
		if err != nil {
			return "", err
		}
		b.WriteString(s)
	}
	b.WriteString("])")
	return b.String(), nil
}

func actNode(a schema.ASTNode) string {
	var b strings.Builder
	fmt.Fprintf(&b, "(%s key=%q sc=%v val=%q note=%q rules=[", a.TokenType, a.Key, a.IsKeyShortcut, a.Value, a.Comment)
	var rules []string
	if a.Rules != nil {
		a.Rules.EachSafe(func(k string, v schema.RuleASTNode) { rules = append(rules, k+"="+actRule(k, v)) })
	}
	b.WriteString(strings.Join(rules, " | "))
	b.WriteString("] children=[")
	for _, c := range a.Children {
		b.WriteString(actNode(c))
	}
	b.WriteString("])")
	return b.String()
}

type c04Wit struct {
	Model  *gen.Model `json:"model"`
	Layout gen.Layout `json:"layout"`
}

func firstDiff(a, b string) string {
	i := 0
	for i < len(a) && i < len(b) && a[i] == b[i] {
		i++
	}
	st := i - 30
	if st < 0 {
		st = 0
	}
	return fmt.Sprintf("expected …%s  got …%s", trunc(a[st:], 110), trunc(b[st:], 110))
}

func c04Case(w *core.W, m *gen.Model, l gen.Layout) {
	w.S.Evaluations++
	w.S.Traces++
	w.S.Transitions += 2
	p := modelProject(m, l)
	var ast schema.ASTNode
	var err, aerr error
	rec, site := guard(func() {
		root, berr := buildProject(p)
		if berr != nil {
			err = berr
			return
		}
		err = root.Check()
		ast, aerr = root.GetAST()
	})
	wit, _ := stdjson.Marshal(c04Wit{m, l})
	fail := func(clause, detail string, sig map[string]string) {
		w.Violate(core.Violation{Clause: clause, Entry: l.Ann, Input: fmt.Sprintf("%q", p.Root), Witness: wit, Detail: detail, Sig: sig})
	}
	if rec != nil {
		fail("no-panic", fmt.Sprintf("%v", rec), map[string]string{"site": site})
		return
	}
	if err != nil || aerr != nil {
		w.Class(fmt.Sprintf("rejected:%d", errCode(err)))
		return
	}
	w.Class("accepted")
	w.S.Nontrivial++
	exp, perr := expNode(m.Root, "")
	if perr != nil {
		fail("ENGINE-oracle", perr.Error(), nil)
		return
	}
	act := actNode(ast)
	if exp != act {
		// discriminate by the first rule name whose rendering differs
		which := "structure"
		for _, nm := range []string{"minLength", "maxLength", "minItems", "maxItems", "precision", "min", "max", "or", "enum", "allOf", "additionalProperties", "type", "regex", "const", "nullable", "optional", "note"} {
			if strings.Contains(firstDiff(exp, act), nm+"=") {
				which = nm
				break
			}
		}
		fail("ast-equals-source", firstDiff(exp, act), map[string]string{"near": which})
	}
}

func init() {
	placements := []gen.Layout{gen.Canonical, {Pad: "", NL: "\n", Ann: "multi", Indent: "\t"}, {Pad: "", NL: "\n", Ann: "multi-broken", Indent: "\t"},
		// type names inside rule values written with a JSON escape: the AST reports the decoded names
		{Pad: "", NL: "\n", Ann: "inline", Indent: "\t", EscValues: true}}
	Register(&Prop{
		ID:        "C04",
		Technique: "bounded exhaustive enumeration of schema models printed to text; the AST is compared node by node and rule by rule with the tree derived from the model that was printed",
		Rule:      "annotated-model family (<=2 levels, <=2 children, every node kind, ordered selections of <=3 (thorough 5 at the root, 3 below) rules from per-kind pools incl. 19/20-digit integers, nested or/enum/allOf lists, notes, key shortcuts) x annotation placement {//, /* */, /* */ broken over lines}; compared: JSON kind, key, shortcut flag, decoded value / reference text, trimmed note, rule names in order, every rule's kind/value/items/properties, children in order, nothing else; non-trivial = accepted models",
		Bounds: func(tier string) map[string]any {
			return map[string]any{"family_level": map[string]int{"quick": 3, "thorough": 5}[tier], "placements": 3}
		},
		Run: func(w *core.W) {
			level := 3
			if w.Thorough() {
				level = 5
			}
			var i int64
			gen.AnnotatedFamily(level, func(m *gen.Model) {
				i++
				if !w.Mine(i) {
					return
				}
				if i&0xff == 0 && w.OverBudget() {
					return
				}
				for _, l := range placements {
					c04Case(w, m, l)
				}
				if i%1999 == 1 {
					w.Sample(m.Root.Print(gen.Canonical))
				}
			})
			if w.Shard == 0 {
				w.S.States += i
				w.Count("models", i)
			}
		},
		Replay: func(w *core.W, v *core.Violation) {
			var wit c04Wit
			if stdjson.Unmarshal(v.Witness, &wit) == nil {
				c04Case(w, wit.Model, wit.Layout)
			}
		},
		Assumptions: []string{
			"SchemaType and Source are not compared (the statement does not name them); unsigned rule values are compared numerically, min/max textually",
			"reference shortcuts contribute their generated rule (`@a` -> type, `@a | @b` -> or) before the written rules",
		},
	})
}
