package props

import (
	"bufio"
	"bytes"
	stdjson "encoding/json"
	"errors"
	"fmt"
	"io"
	"os/exec"
	"path/filepath"
	"strings"

	schema "github.com/jsightapi/jsight-schema-core"
	jdoc "github.com/jsightapi/jsight-schema-core/formats/json"
	"github.com/jsightapi/jsight-schema-core/notations/jschema"
	jregex "github.com/jsightapi/jsight-schema-core/notations/regex"
	"github.com/jsightapi/jsight-schema-core/openapi"
	"github.com/jsightapi/jsight-schema-core/rules/enum"
	"github.com/jsightapi/jsight-schema-core/verifshim/vsync"

	"verifmc/core"
	"verifmc/explore"
)

// C10 — returned results stay intact and do not depend on what was processed before.

var c10Projects = map[string]*project{
	// deep valid project with types, an enum rule, nesting, allOf and a key shortcut
	"S1": {Root: "{ // {allOf: \"@base\"}\n\t\"id\": 1, // {min: 0}\n\t\"tags\": [\n\t\t\"a\",\n\t\t@tag\n\t],\n\t\"child\": @node, // {optional: true}\n\t\"kind\": \"x\", // {enum: @kinds}\n\t@tag: 5\n}",
		Types: map[string]string{"@base": "{\n\t\"base\": true\n}", "@tag": `"t1" // {regex: "t\\d"}`, "@node": "{\n\t\"v\": 1.5, // {precision: 1}\n\t\"next\": @node // {optional: true}\n}"},
		Enums: map[string]string{"@kinds": `["x", "y"]`}},
	// every rule kind the converter handles, incl. or rule-sets with format types, enum, const, nullable
	"S6": {Root: "{\n\t\"when\": \"2021-01-02T07:23:12+03:00\", // {or: [{type: \"datetime\"}, {type: \"integer\", min: 0}]}\n\t\"mail\": \"a@b.cc\", // {or: [\"email\", \"@tag\"]}\n\t\"day\": \"2021-01-02\", // {type: \"date\", nullable: true}\n\t\"pick\": 2, // {enum: [1, 2, \"x\"]}\n\t\"fixed\": \"c\", // {const: true}\n\t\"price\": 1.25, // {precision: 2, min: 0, exclusiveMinimum: true}\n\t\"code\": \"ab\", // {regex: \"^a\", minLength: 1, maxLength: 3}\n\t\"list\": [ // {minItems: 1, maxItems: 3}\n\t\t@tag\n\t],\n\t\"any\": 1, // {type: \"any\"}\n\t\"free\": {}, // {additionalProperties: \"string\"}\n\t\"open\": { // {additionalProperties: \"array\"}\n\t\t@tag: 1\n\t},\n\t\"nul\": { // {additionalProperties: \"null\"}\n\t\t\"k\": 1,\n\t\t@tag: 2\n\t}\n}",
		Types: map[string]string{"@tag": `"t1" // {regex: "t\\d"}`}},
	// shallow valid
	"S2": {Root: "[\n\t1,\n\t\"two\",\n\t{\n\t\t\"three\": null\n\t}\n]"},
	// fails in the scanner after some nodes (and inline or-types, a type shortcut) were loaded
	"S3": {Root: "{\n\t\"a\": 1, // {or: [{type: \"integer\"}, {type: \"@gone\", nullable: true}]}\n\t\"s\": @x | @y,\n\t\"b\": [\n\t\t2,\n\t\t3\n\t],\n\t\"c\": tru\n}"},
	// fails in the rule loader inside an annotation, after an or rule registered its unnamed types
	"S4": {Root: "{\n\t\"a\": 5, // {or: [{type: \"@missing\", nullable: true}, {type: \"string\"}]}\n\t\"b\": 2 // {min: 0, nosuchrule: 1}\n}"},
	// a scalar root and a root that is a reference to a scalar type: the example is the
	// literal as written
	"S7": {Root: `"abc" // {minLength: 1}`},
	"S8": {Root: "@lit", Types: map[string]string{"@lit": `"from type"`}},
	// a text without any example element: whatever a pooled loader still holds shows here
	"S9": {Root: "# nothing here yet"},
	// twins: equal values spelled differently (1 / 1.0, 20.50 / 20.5, "A" / "\u0041"): whatever
	// one process-wide table keyed by value would hand from one to the other
	"S10": {Root: "{\n\t\"a\": 5, // {min: 1, max: 20.50}\n\t\"b\": \"A\", // {enum: [\"A\", \"b\"]}\n\t\"c\": 1.5 // {precision: 2, min: 0.50}\n}"},
	"S11": {Root: "{\n\t\"a\": 5, // {min: 1.0, max: 20.5}\n\t\"b\": \"A\", // {enum: [\"\\u0041\", \"b\"]}\n\t\"c\": 1.5 // {precision: 2, min: 0.5}\n}"},
	// a schema whose dereferenced view is a list of seven informers (longer than any list
	// an allocator would size for the common case)
	"S13": {Root: `1 // {or: ["integer", "string", "boolean", "float", "@obj", "@arr", "null"]}`, Types: map[string]string{"@obj": "{\n\t\"key\": \"value\"\n}", "@arr": "[\n\t1,\n\t2\n]"}},
	// fails in the checker
	"S5": {Root: "{\n\t\"a\": 1, // {min: 0}\n\t\"b\": @missing,\n\t\"c\": 2 // {min: 5}\n}"},
}

// S12: a project whose example (about 18 KiB) and OpenAPI text (about 18 KiB) outgrow the
// pooled buffers many times over: whatever a pool does with an oversized buffer shows in
// the next, small, result.
func init() {
	var b strings.Builder
	// (few properties: every pooled buffer taken is a choice point of the exploration)
	b.WriteString("{\n\t\"text\": \"" + strings.Repeat("x", 6000) + "\",\n\t\"list\": [\n\t\t1\n\t],\n\t\"more\": \"" + strings.Repeat("y", 12000) + "\"")
	b.WriteString("\n}")
	c10Projects["S12"] = &project{Root: b.String()}
}

const c10Enum = "[\n\t1, // one\n\t\"two\", /* second */\n\ttrue\n]"
const c10Regex = `/ab[cd]{2}\d+/`
const c10Doc = `{"a": [1, 2, {"b": null}], "c": "dé"}`

var c10Docs = map[string]string{"D1": c10Doc, "D2": `{"a": tru}`, "D3": `123`, "D4": `"unterminated`}

type c10Sym struct {
	Obj string `json:"obj"`
	Op  string `json:"op"`
}

func (s c10Sym) String() string { return s.Obj + "." + s.Op }

var c10Disturbers = []c10Sym{{"L", "{\n\t\"enabled\": tr"}, {"LE", `[1, "a`}, {"S1", "AddType-refused"}, {"S4", "Check"}, {"S1", "Example"}, {"S6", "OpenAPI"},
	{"D2", "Check"}, {"R1", "Example"}, {"S8", "Example+write"}, {"S10", "GetAST"}, {"S12", "Example"}, {"S12", "OpenAPI"}, {"S13", "Dereference"}}

func c10Alphabet() []c10Sym {
	var out []c10Sym
	for _, o := range []string{"S1", "S2", "S3", "S4", "S5", "S6"} {
		for _, op := range []string{"Check", "Example", "GetAST", "OpenAPI", "Dereference", "Len", "Used"} {
			if op == "Dereference" && o != "S1" && o != "S6" {
				continue
			}
			if (op == "Used" || op == "Len") && (o == "S3" || o == "S4" || o == "S5" || o == "S2") {
				continue
			}
			out = append(out, c10Sym{o, op})
		}
	}
	for _, op := range []string{"Check", "Values", "Len", "GetAST"} {
		out = append(out, c10Sym{"E1", op})
	}
	for _, op := range []string{"Check", "Example", "Len", "Example+write"} {
		out = append(out, c10Sym{"R1", op})
	}
	for _, lit := range []string{"1e2", "1.0", `"a.b"`, "25E-1", "7"} {
		out = append(out, c10Sym{"G", lit})
	}
	// "+write": the caller overwrites the bytes it was given (they are its own)
	out = append(out, c10Sym{"S1", "Example+write"}, c10Sym{"S6", "Example+write"}, c10Sym{"S2", "Example+write"})
	for _, o := range []string{"S7", "S8"} {
		for _, op := range []string{"Example", "Example+write", "GetAST", "Check"} {
			out = append(out, c10Sym{o, op})
		}
	}
	out = append(out, c10Sym{"E1", "Values+write"}, c10Sym{"S1", "Used+write"})
	for _, op := range []string{"Check", "Example", "GetAST", "Used"} {
		out = append(out, c10Sym{"S9", op})
	}
	out = append(out, c10Sym{"S12", "Example"}, c10Sym{"S12", "OpenAPI"}, c10Sym{"S13", "Dereference"}, c10Sym{"S13", "OpenAPI"})
	for _, o := range []string{"S10", "S11"} {
		for _, op := range []string{"GetAST", "OpenAPI", "Check"} {
			out = append(out, c10Sym{o, op})
		}
	}
	// lengths of fresh texts: some break off inside a literal, some are bare numbers
	// that end with the text (whatever a pooled length scanner remembers shows there)
	for _, t := range []string{"{\n\t\"enabled\": tr", `"ab`, `-`, `@a |`, `42`, `0`, "1 // {min: 0}", "{}\nGET /x"} {
		out = append(out, c10Sym{"L", t})
	}
	for _, t := range []string{`[1, "a`, `[tr`, `[1]`, `[1] x`} {
		out = append(out, c10Sym{"LE", t})
	}
	// registrations that are refused (a name already taken, an invalid name) must leave
	// the object as it was
	out = append(out, c10Sym{"S1", "AddType-refused"}, c10Sym{"S6", "AddType-refused"})
	for _, op := range []string{"Check", "Len", "Lexemes"} {
		out = append(out, c10Sym{"D1", op})
	}
	// more JSON documents: one that fails inside a literal, scalar roots ending at end of text
	out = append(out, c10Sym{"D2", "Check"}, c10Sym{"D2", "Len"}, c10Sym{"D3", "Check"}, c10Sym{"D3", "Lexemes"}, c10Sym{"D4", "Check"}, c10Sym{"D4", "Len"})
	return out
}

// c10Objects holds the (lazily created) instances of one history.
type c10Objects struct {
	s map[string]*jschema.JSchema
	e *enum.Enum
	r *jregex.RSchema
	d schema.Document
	docs map[string]schema.Document
}

// c10Result: a returned value kept by the "caller", with the snapshot taken when
// it was returned and a function that re-reads the retained value.
type c10Result struct {
	sym      c10Sym
	snapshot string
	reread   func() string
}

func errSnap(err error) string {
	if err == nil {
		return "nil"
	}
	return fmt.Sprintf("%d|%s|%s", errCode(err), errMsg(err), errPos(err))
}

// c10Exec executes one symbol; it returns the retained result.
func c10Exec(objs *c10Objects, sym c10Sym) (res c10Result) {
	res.sym = sym
	set := func(f func() string) {
		// re-reading a retained value must never take the harness down
		safe := func() (out string) {
			if r, site := guard(func() { out = f() }); r != nil {
				out = fmt.Sprintf("panic while reading the retained value: %v@%s", r, site)
			}
			return out
		}
		res.reread = safe
		res.snapshot = safe()
	}
	rec, site := guard(func() {
		switch sym.Obj {
		case "S1", "S2", "S3", "S4", "S5", "S6", "S7", "S8", "S9", "S10", "S11", "S12", "S13":
			s := objs.s[sym.Obj]
			var buildErr error
			if s == nil {
				s, buildErr = buildProject(c10Projects[sym.Obj])
				objs.s[sym.Obj] = s
			}
			if buildErr != nil {
				set(func() string { return "build:" + errSnap(buildErr) })
				return
			}
			switch sym.Op {
			case "Check":
				err := s.Check()
				set(func() string { return errSnap(err) })
			case "Example":
				b, err := s.Example()
				set(func() string { return string(b) + "|" + errSnap(err) })
			case "Example+write":
				b, err := s.Example()
				snap := string(b) + "|" + errSnap(err)
				for i := range b {
					b[i] = 'X'
				}
				set(func() string { return snap })
			case "GetAST":
				a, err := s.GetAST()
				set(func() string { j, _ := stdjson.Marshal(a); return string(j) + "|" + errSnap(err) })
			case "OpenAPI":
				if s.Check() != nil {
					set(func() string { return "not-accepted" })
					return
				}
				b, err := openapi.NewSchemaObject(s).MarshalJSON()
				set(func() string { return string(b) + "|" + errSnap(err) })
			case "Dereference":
				if s.Check() != nil {
					set(func() string { return "not-accepted" })
					return
				}
				infos := openapi.Dereference(s)
				set(func() string {
					var b strings.Builder
					for _, in := range infos {
						j, e := in.SchemaObject().MarshalJSON()
						fmt.Fprintf(&b, "%v:%s|%v;", in.Type(), j, e)
						// the properties (own and inherited) are resolved lazily, each
						// time the informer is asked
						if oi, ok := in.(openapi.ObjectInformer); ok {
							for _, pi := range oi.PropertiesInfos() {
								pj, pe := pi.SchemaObject().MarshalJSON()
								fmt.Fprintf(&b, " %s%v=%s|%v", pi.Key(), pi.Optional(), pj, pe)
							}
						}
					}
					return b.String()
				})
			case "Len":
				l, err := s.Len()
				set(func() string { return fmt.Sprint(l) + "|" + errSnap(err) })
			case "Used":
				u, err := s.UsedUserTypes()
				set(func() string { return strings.Join(u, ",") + "|" + errSnap(err) })
			case "AddType-refused":
				taken := sortedKeys(c10Projects[sym.Obj].Types)[0]
				e1 := s.AddType(taken, jschema.New("other", `"another type under a name that is taken"`))
				e2 := s.AddType("not a type name", jschema.New("other", `1`))
				set(func() string { return errSnap(e1) + " / " + errSnap(e2) })
			case "Used+write":
				u, err := s.UsedUserTypes()
				snap := strings.Join(u, ",") + "|" + errSnap(err)
				for i := range u {
					u[i] = "@overwritten"
				}
				set(func() string { return snap })
			}
		case "L": // Len() of a fresh schema object over the text (each time a new object)
			l, err := jschema.New("len", sym.Op).Len()
			set(func() string { return fmt.Sprint(l) + "|" + errSnap(err) })
		case "LE": // the same for an enum rule
			l, err := enum.New("len", sym.Op).Len()
			set(func() string { return fmt.Sprint(l) + "|" + errSnap(err) })
		case "G":
			t, err := schema.GuessSchemaType([]byte(sym.Op))
			set(func() string { return string(t) + "|" + errSnap(err) })
		case "E1":
			if objs.e == nil {
				objs.e = enum.New("e", c10Enum)
			}
			switch sym.Op {
			case "Check":
				err := objs.e.Check()
				set(func() string { return errSnap(err) })
			case "Values":
				v, err := objs.e.Values()
				set(func() string {
					var b strings.Builder
					for _, x := range v {
						fmt.Fprintf(&b, "%s:%s:%q;", x.Type, x.Value.String(), x.Comment)
					}
					return b.String() + "|" + errSnap(err)
				})
			case "Values+write":
				v, err := objs.e.Values()
				var b strings.Builder
				for _, x := range v {
					fmt.Fprintf(&b, "%s:%s:%q;", x.Type, x.Value.String(), x.Comment)
				}
				snap := b.String() + "|" + errSnap(err)
				for i := range v {
					v[i] = enum.Value{Comment: "overwritten"}
				}
				set(func() string { return snap })
			case "Len":
				l, err := objs.e.Len()
				set(func() string { return fmt.Sprint(l) + "|" + errSnap(err) })
			case "GetAST":
				a, err := objs.e.GetAST()
				set(func() string { j, _ := stdjson.Marshal(a); return string(j) + "|" + errSnap(err) })
			}
		case "R1":
			if objs.r == nil {
				objs.r = jregex.New("r", c10Regex)
			}
			switch sym.Op {
			case "Check":
				err := objs.r.Check()
				set(func() string { return errSnap(err) })
			case "Example":
				b, err := objs.r.Example()
				set(func() string { return string(b) + "|" + errSnap(err) })
			case "Example+write":
				b, err := objs.r.Example()
				snap := string(b) + "|" + errSnap(err)
				for i := range b {
					b[i] = 'X'
				}
				set(func() string { return snap })
			case "Len":
				l, err := objs.r.Len()
				set(func() string { return fmt.Sprint(l) + "|" + errSnap(err) })
			}
		case "D1", "D2", "D3", "D4":
			if objs.docs == nil {
				objs.docs = map[string]schema.Document{}
			}
			if objs.docs[sym.Obj] == nil {
				objs.docs[sym.Obj] = jdoc.New("d", c10Docs[sym.Obj])
			}
			objs.d = objs.docs[sym.Obj]
			switch sym.Op {
			case "Check":
				err := objs.d.Check()
				set(func() string { return errSnap(err) })
			case "Len":
				l, err := objs.d.Len()
				set(func() string { return fmt.Sprint(l) + "|" + errSnap(err) })
			case "Lexemes":
				d := jdoc.New("d", c10Docs[sym.Obj])
				var b strings.Builder
				for i := 0; i < 1000; i++ {
					lex, err := d.NextLexeme()
					if errors.Is(err, io.EOF) || err != nil {
						break
					}
					b.WriteString(lex.String() + "=" + lex.Value().String() + ";")
				}
				s := b.String()
				set(func() string { return s })
			}
		}
	})
	if rec != nil {
		msg := fmt.Sprintf("panic:%v@%s", rec, site)
		res.snapshot, res.reread = msg, func() string { return msg }
	}
	if res.reread == nil {
		// a symbol the executor does not know is a harness error, never a silent no-op
		msg := "ENGINE: unknown symbol " + sym.String()
		res.snapshot, res.reread = msg, func() string { return msg }
	}
	return res
}

func newC10Objects() *c10Objects { return &c10Objects{s: map[string]*jschema.JSchema{}} }

type c10Wit struct {
	History []c10Sym `json:"history"`
	Choices []int    `json:"choices"`
}

// c10History explores one history under every pool answer within the bound.
func c10History(w *core.W, hist []c10Sym, refs map[string]string, bound int) {
	ex := &explore.Explorer{Bound: bound, MaxExec: 5000}
	ex.Run = func(ch *explore.Chooser) {
		vsync.ResetPools()
		vsync.Scribble = true
		vsync.PoolChoice = func(p *vsync.Pool, n int) int {
			// alternatives: 0 = most recently put (default), 1..n-1 = older items, n = New()
			c := ch.Choose(n + 1)
			if c == 0 {
				return n - 1
			}
			if c == n {
				return n
			}
			return n - 1 - c
		}
		objs := newC10Objects()
		var kept []c10Result
		w.S.Evaluations++
		w.S.Traces++
		for step, sym := range hist {
			r := c10Exec(objs, sym)
			w.S.Transitions++
			kept = append(kept, r)
			fail := func(clause, detail string, sig map[string]string) {
				wit, _ := stdjson.Marshal(c10Wit{hist[:step+1], append([]int{}, ch.Choices...)})
				var names []string
				for _, h := range hist[:step+1] {
					names = append(names, h.String())
				}
				w.Violate(core.Violation{Clause: clause, Entry: "history", Input: strings.Join(names, " ; "), Witness: wit, Detail: detail, Sig: sig})
			}
			// (1) the result equals the one obtained first thing in a brand-new process
			refKey := strings.TrimSuffix(sym.String(), "+write")
			if want, ok := refs[refKey]; ok && r.snapshot != want {
				fail("independent-of-history", fmt.Sprintf("%s after this history = %s; in a fresh process = %s", sym, trunc(r.snapshot, 140), trunc(want, 140)), map[string]string{"sym": sym.String()})
				return
			}
			// (2) everything returned so far is still intact
			for _, k := range kept {
				if now := k.reread(); now != k.snapshot {
					fail("returned-values-stay-intact", fmt.Sprintf("the value returned by %s changed after %s: was %s, now %s", k.sym, sym, trunc(k.snapshot, 120), trunc(now, 120)), map[string]string{"returned_by": k.sym.Op, "changed_by": sym.Op})
					return
				}
			}
		}
		vsync.PoolChoice = nil
	}
	ex.Explore()
	vsync.PoolChoice = nil
	w.S.States += ex.Executions
	if ex.Executions > 1 {
		w.S.Nontrivial++
	}
	if ex.Capped {
		w.Cap("pool-answer exploration capped at 5000 executions for one history")
	}
	if ex.Divergence != "" {
		w.Violate(core.Violation{Clause: "ENGINE-replay-divergence", Entry: "history", Input: fmt.Sprint(hist), Detail: ex.Divergence})
	}
}

// C10OneShot prints "<symbol>\t<snapshot>" for one symbol executed first in this process.
func C10OneShot(sym string) {
	for _, s := range c10Alphabet() {
		if s.String() == sym {
			vsync.Scribble = false // the reference is the plain behaviour; scribbling only exists to expose use-after-Put
			r := c10Exec(newC10Objects(), s)
			b, _ := stdjson.Marshal(r.snapshot)
			fmt.Printf("%s\t%s\n", sym, b)
		}
	}
}

// c10Documents: a JSON document object rewinds before Len() and Check() and afterwards, so
// neither their results nor the lexeme stream read next may depend on how much of the
// stream was read before, and a stream read from a fresh object equals the stream read after
// Len() or Check(). Every prefix of {read k lexemes, Len, Check} up to three steps is tried
// on every document, with and without the trailing-characters option.
func c10Documents(w *core.W) {
	type docCase struct {
		name, text string
		trailing   bool
	}
	var cases []docCase
	for _, t := range []string{c10Doc, `{"a": tru}`, `123`, `"unterminated`, `{"a": [1, true]} GET /next`, "[1, 2]\n\nPOST /x", `7 8`, `null x`, `{} }`, ``, ` `, `[1,]`} {
		cases = append(cases, docCase{"plain", t, false}, docCase{"allow-trailing", t, true})
	}
	mk := func(c docCase) schema.Document {
		if c.trailing {
			return jdoc.New("d", c.text, jdoc.AllowTrailingNonSpaceCharacters())
		}
		return jdoc.New("d", c.text)
	}
	drain := func(d schema.Document) string {
		var b strings.Builder
		for i := 0; i < 1000; i++ {
			lex, err := d.NextLexeme()
			if errors.Is(err, io.EOF) {
				b.WriteString("EOF")
				break
			}
			if err != nil {
				b.WriteString("ERR " + errSnap(err))
				break
			}
			b.WriteString(lex.String() + "=" + lex.Value().String() + ";")
		}
		return b.String()
	}
	steps := []string{"next1", "next3", "drain", "Len", "Check"}
	var seqs [][]string
	var rec func(h []string)
	rec = func(h []string) {
		seqs = append(seqs, append([]string{}, h...))
		if len(h) == 3 {
			return
		}
		for _, s := range steps {
			rec(append(h, s))
		}
	}
	rec(nil)
	for _, c := range cases {
		var stream, lenRes, checkRes string
		if rec, site := guard(func() {
			stream = drain(mk(c))
			l, err := mk(c).Len()
			lenRes = fmt.Sprint(l) + "|" + errSnap(err)
			checkRes = errSnap(mk(c).Check())
		}); rec != nil {
			w.Violate(core.Violation{Clause: "no-panic", Entry: "document:" + c.name, Input: c.text, Detail: fmt.Sprintf("%v at %s", rec, site)})
			continue
		}
		for _, h := range seqs {
			w.S.Evaluations++
			w.S.Traces++
			w.S.Transitions += int64(len(h)) + 1
			d := mk(c)
			rewound := true // the position is at the start: nothing read since creation or since a rewinding call
			lenDone, checkDone := false, false
			bad := ""
			rp, site := guard(func() {
				for _, st := range h {
					switch st {
					case "next1", "next3":
						n := map[string]int{"next1": 1, "next3": 3}[st]
						for k := 0; k < n; k++ {
							if _, err := d.NextLexeme(); err != nil {
								break
							}
						}
						rewound = false
					case "drain":
						got := drain(d)
						if rewound && got != stream {
							bad = fmt.Sprintf("stream read after %v is %q, read first from a fresh object it is %q", h, trunc(got, 120), trunc(stream, 120))
						}
						rewound = false
					case "Len":
						l, err := d.Len()
						if got := fmt.Sprint(l) + "|" + errSnap(err); got != lenRes {
							bad = fmt.Sprintf("Len() after %v is %q, on a fresh object %q", h, got, lenRes)
						}
						if !lenDone {
							rewound = true
						}
						lenDone = true
					case "Check":
						if got := errSnap(d.Check()); got != checkRes {
							bad = fmt.Sprintf("Check() after %v is %q, on a fresh object %q", h, got, checkRes)
						}
						if !checkDone {
							rewound = true
						}
						checkDone = true
					}
					if bad != "" {
						return
					}
				}
				if rewound {
					w.S.Nontrivial++
					if got := drain(d); got != stream {
						bad = fmt.Sprintf("stream read after %v is %q, read first from a fresh object it is %q", h, trunc(got, 120), trunc(stream, 120))
					}
				}
			})
			if rp != nil {
				bad = fmt.Sprintf("panic %v at %s", rp, site)
			}
			if bad != "" {
				w.Violate(core.Violation{Clause: "document-calls-independent", Entry: "document:" + c.name, Input: fmt.Sprintf("%q after %v", c.text, h), Detail: bad,
					Sig: map[string]string{"doc": c.name, "last": h[len(h)-1]}})
			}
		}
	}
	w.Count("document_histories", int64(len(seqs)*len(cases)))
}

func c10References(w *core.W) map[string]string {
	refs := map[string]string{}
	self := filepath.Join(verifDirProps(), core.BuildDirName(), "mc-inst")
	for _, s := range c10Alphabet() {
		out, err := exec.Command(self, "c10oneshot", s.String()).Output()
		if err != nil {
			w.Note("oneshot failed for " + s.String() + ": " + err.Error())
			continue
		}
		sc := bufio.NewScanner(bytes.NewReader(out))
		sc.Buffer(make([]byte, 1<<20), 1<<24)
		for sc.Scan() {
			f := strings.SplitN(sc.Text(), "\t", 2)
			if len(f) == 2 {
				var v string
				if stdjson.Unmarshal([]byte(f[1]), &v) == nil {
					refs[f[0]] = v
				}
			}
		}
	}
	return refs
}

func init() {
	Register(&Prop{
		ID:        "C10",
		Inst:      true,
		Technique: "exhaustive operation histories over several schema/rule/regex/document objects, each executed under every sync.Pool answer within a deviation bound with a scribbling pool model; every retained result is re-read after every step and compared with its snapshot and with the result of the same call made first in a brand-new process",
		Rule:      "alphabet of about 100 symbols (the exact number is in bounds) = {Check, Example, GetAST, OpenAPI, Dereference, Len, UsedUserTypes, caller writes, refused registrations} x 13 schema projects (deep valid with types, one with every rule kind the converter handles, shallow valid, fails in scanner, fails in rule loader, fails in checker, scalar root, reference to a scalar type, comment-only text, two twins with equal values spelled differently, one with results of 18 KiB, one with a list of seven informers) + enum rule {Check, Values, Len, GetAST} + regex {Check, Example, Len} + JSON document {Check, Len, lexeme stream}; JSON document objects (12 texts, with and without the trailing-characters option) under every sequence of <=3 steps from {read 1, read 3, drain, Len, Check}: Len/Check results and the stream read from a rewound object equal those of a fresh object; repeated symbols act on the already used object; quick: all histories of length <=2 and those of length 3 that start with one of 13 disturbers (a load that breaks off inside a literal, a refused registration, a load that fails in the rule loader, pool users, an oversized result, a twin project, a long informer list); thorough: all of length <=3 and those of length 4 whose first two symbols are disturbers; pool answers: default (most recent), any older item, New(), <=1 deviation; pooled buffers are overwritten with 0xEE when put back; non-trivial = histories with more than one explored pool environment",
		Bounds: func(tier string) map[string]any {
			return map[string]any{"history_length": map[string]int{"quick": 3, "thorough": 4}[tier], "pool_deviations": 1, "symbols": len(c10Alphabet())}
		},
		Run: func(w *core.W) {
			refs := c10References(w)
			if len(refs) < len(c10Alphabet())-4 {
				w.Violate(core.Violation{Clause: "ENGINE-oneshot", Detail: fmt.Sprintf("only %d of %d fresh-process references obtained", len(refs), len(c10Alphabet()))})
				return
			}
			if w.Shard == 0 {
				c10Documents(w)
			}
			alpha := c10Alphabet()
			L := 3
			bound := 1
			var i, own int64
			stop := false
			var rec func(h []c10Sym)
			rec = func(h []c10Sym) {
				if stop {
					return
				}
				if len(h) > 0 {
					i++
					if w.Mine(i) {
						c10History(w, h, refs, bound)
						if i%9001 == 1 {
							w.Sample(fmt.Sprint(h))
						}
						// (polled on the shard's own histories; once over, everything stops)
						if own++; own&0x3f == 0 && w.OverBudget() {
							stop = true
							return
						}
					}
				}
				if len(h) == L {
					return
				}
				for _, s := range alpha {
					rec(append(h, s))
				}
			}
			if !w.Thorough() {
				// quick tier: every history of length <= 2; of length 3 those that start
				// with a disturber (a load that fails half-way, a pooled buffer user, a
				// document that ends inside a literal, an exponent literal)
				L = 2
				rec(nil)
				L = 3
				for _, d := range c10Disturbers {
					rec([]c10Sym{d})
				}
				if w.Shard == 0 {
					w.Count("histories", i)
				}
				return
			}
			// thorough tier: every history of length <= 3; of length 4 those whose first two
			// symbols are disturbers (all of length 4 over this alphabet would be 10^8 histories)
			L = 3
			rec(nil)
			L = 4
			for _, d1 := range c10Disturbers {
				for _, d2 := range c10Disturbers {
					rec([]c10Sym{d1, d2})
				}
			}
			if w.Shard == 0 {
				w.Count("histories", i)
			}
		},
		Replay: func(w *core.W, v *core.Violation) {
			var wit c10Wit
			if stdjson.Unmarshal(v.Witness, &wit) != nil {
				return
			}
			refs := c10References(w)
			c10History(w, wit.History, refs, 2)
		},
		Assumptions: []string{
			"sync.Pool is modelled as 'Get may return any pooled item or New()' and a returned buffer may be overwritten by its next owner at once (scribbling on Put)",
			"histories are sequential (one goroutine); concurrency is C11",
		},
	})
}
