package props

import (
	stdjson "encoding/json"
	"fmt"
	"strings"

	"verifmc/core"
	"verifmc/gen"
)

// C14 — meaning is independent of layout.

func c14Layouts(thorough bool) []gen.Layout {
	pads := []string{"", " ", "   ", "\t", "GLUE"}
	nls := []string{"\n", "\r\n", "\r", "mix0", "mix1"} // mixN: every line break in its own style, in rotation
	blanks := []int{0, 2}
	anns := []string{"inline", "multi", "multi-broken", "multi-broken-colon"}
	quotes := []int{0, 1, 2, 3} // bare, quoted, quoted with an escaped letter, bare with escaped type names in the values
	comments := []string{"", "eol", "own-line", "block", "eol-bare", "own-line-bare"}
	var out []gen.Layout
	for pi, p := range pads {
		for ni, n := range nls {
			for bi, b := range blanks {
				for ai, a := range anns {
					for qi, q := range quotes {
						for ci, c := range comments {
							dev := 0
							for _, x := range []int{pi, ni, bi, ai, qi, ci} {
								if x != 0 {
									dev++
								}
							}
							// (all 4800 combinations x the thorough family would take hours:
							// thorough explores up to three deviating choices, quick two)
							if dev == 0 || (!thorough && dev > 2) || dev > 3 {
								continue
							}
							l := gen.Layout{Pad: p, NL: n, LeadBlank: b, TrailBlank: b, Ann: a, QuoteNames: q == 1 || q == 2, EscNames: q == 2, EscValues: q == 3, Comments: c, Indent: "\t"}
							if p == "GLUE" {
								l.Pad, l.Glue = "", true
							}
							out = append(out, l)
						}
					}
				}
			}
		}
	}
	return out
}

type c14Wit struct {
	Model  *gen.Model `json:"model"`
	Layout gen.Layout `json:"layout"`
}

func c14Compare(w *core.W, m *gen.Model, base obs, l gen.Layout) {
	w.S.Evaluations++
	w.S.Traces++
	w.S.Transitions += 6
	p := modelProject(m, l)
	o, _ := observe(p)
	fail := func(clause, detail string, sig map[string]string) {
		if sig == nil {
			sig = map[string]string{}
		}
		sig["layout"] = l.Name()
		wit, _ := stdjson.Marshal(c14Wit{m, l})
		w.Violate(core.Violation{Clause: clause, Entry: "layout", Input: fmt.Sprintf("%q  (canonical: %q)", p.Root, m.Root.Print(gen.Canonical)), Witness: wit, Detail: detail, Sig: sig})
	}
	if o.Panic != "" {
		fail("no-panic", o.Panic, nil)
		return
	}
	if o.Code != base.Code || o.BuildErr != "" != (base.BuildErr != "") {
		fail("same-verdict-and-code", fmt.Sprintf("canonical rendering: code %d (%s); this rendering: code %d (%s)", base.Code, trunc(base.Msg+base.BuildErr, 80), o.Code, trunc(o.Msg+o.BuildErr, 80)),
			map[string]string{"codes": fmt.Sprintf("%d->%d", base.Code, o.Code)})
		return
	}
	if base.Code != 0 {
		w.Class("both-reject")
		return
	}
	w.Class("both-accept")
	w.S.Nontrivial++
	if o.AST != base.AST {
		fail("same-ast", fmt.Sprintf("AST differs: %s vs canonical %s", trunc(o.AST, 200), trunc(base.AST, 200)), nil)
	}
	if o.Example != base.Example {
		fail("same-example", fmt.Sprintf("Example %q vs canonical %q", trunc(o.Example, 100), trunc(base.Example, 100)), nil)
	}
	if o.Used != base.Used {
		fail("same-used-types", fmt.Sprintf("UsedUserTypes %q vs canonical %q", o.Used, base.Used), nil)
	}
	if o.OpenAPI != base.OpenAPI {
		fail("same-openapi", fmt.Sprintf("OpenAPI %s vs canonical %s", trunc(o.OpenAPI, 160), trunc(base.OpenAPI, 160)), nil)
	}
}

// c14Corpus: the repository's own test schemas under the context-free transformations.
func c14Corpus(w *core.W) {
	normNotes := func(ast string) string {
		return strings.ReplaceAll(strings.ReplaceAll(ast, `\r\n`, `\n`), `\r`, `\n`)
	}
	var i int64
	for _, ct := range validCorpus() {
		isSchema := false
		for _, e := range ct.entries {
			if e == "schema" {
				isSchema = true
			}
		}
		if !isSchema {
			continue
		}
		i++
		if !w.Mine(i) {
			continue
		}
		lf := strings.ReplaceAll(strings.ReplaceAll(ct.text, "\r\n", "\n"), "\r", "\n")
		base, _ := observe(&project{Root: lf})
		if base.Panic != "" {
			continue
		}
		variants := map[string]string{
			"crlf":       strings.ReplaceAll(lf, "\n", "\r\n"),
			"cr":         strings.ReplaceAll(lf, "\n", "\r"),
			"blank-lead": "\n\n" + lf,
			"blank-tail": lf + "\n\n",
		}
		if !strings.Contains(lf, "/*") && !strings.Contains(lf, "###") {
			variants["line-end-pad"] = strings.ReplaceAll(lf, "\n", " \t\n") + "  "
		}
		for name, text := range variants {
			w.S.Evaluations++
			w.S.Traces++
			o, _ := observe(&project{Root: text})
			fail := func(clause, detail string) {
				w.Violate(bv(clause, "corpus", []byte(text), detail, map[string]string{"transform": name}))
			}
			switch {
			case o.Panic != "":
				fail("no-panic", o.Panic)
			case o.Code != base.Code:
				fail("same-verdict-and-code", fmt.Sprintf("original: code %d (%s); transformed: code %d (%s)", base.Code, trunc(base.Msg, 80), o.Code, trunc(o.Msg, 80)))
			case base.Code != 0:
			default:
				w.S.Nontrivial++
				if normNotes(o.AST) != normNotes(base.AST) {
					fail("same-ast", fmt.Sprintf("AST %s vs original %s", trunc(o.AST, 160), trunc(base.AST, 160)))
				}
				if o.Example != base.Example || o.Used != base.Used || o.OpenAPI != base.OpenAPI {
					fail("same-example", fmt.Sprintf("example/used/openapi differ: %q %q vs %q %q", trunc(o.Example, 60), o.Used, trunc(base.Example, 60), base.Used))
				}
			}
		}
	}
	if w.Shard == 0 {
		w.Count("corpus.schemas", i)
	}
}

func init() {
	Register(&Prop{
		ID:        "C14",
		Technique: "bounded exhaustive enumeration of schema models x layout combinations; differential comparison of every observable against the canonical rendering of the same model",
		Rule:      "every model of the annotated-model family (<=2 levels, <=2 children, every node kind, ordered rule selections, notes) rendered under every layout differing from the canonical one in <=2 (thorough: <=3, 858 layouts; quick 182) of the dimensions padding{none,1,3,tab,glued} x newline{LF,CRLF,CR,every break in its own style in rotation x2} x blank lines x annotation style{//,/* */,/* */ broken after { and commas,/* */ broken around the colons} x rule-name quoting{bare,quoted,quoted with an escaped letter,bare with type names in rule values written with a JSON escape} x user comments{none,# eol,# own line,### block,bare # eol,bare # own line}; non-trivial = renderings of accepted models",
		Bounds: func(tier string) map[string]any {
			return map[string]any{"layouts": len(c14Layouts(tier == "thorough")), "family_level": map[string]int{"quick": 2, "thorough": 3}[tier]}
		},
		Run: func(w *core.W) {
			layouts := c14Layouts(w.Thorough())
			level := 2
			if w.Thorough() {
				level = 3
			}
			var i, own int64
			over := false
			gen.AnnotatedFamily(level, func(m *gen.Model) {
				i++
				if over || !w.Mine(i) {
					return
				}
				// (polled on the shard's own cases: a counter over all cases would be
				// looked at by one shard only)
				if own++; own&0x7 == 0 && w.OverBudget() {
					over = true
					return
				}
				base, _ := observe(modelProject(m, gen.Canonical))
				if base.Panic != "" {
					return // C02's business
				}
				if i%997 == 1 {
					w.Sample(map[string]string{"canonical": m.Root.Print(gen.Canonical), "variant": m.Root.Print(layouts[int(i)%len(layouts)])})
				}
				for _, l := range layouts {
					c14Compare(w, m, base, l)
				}
			})
			if w.Shard == 0 {
				w.S.States += i
				w.Count("models", i)
			}
			c14Corpus(w)
		},
		Replay: func(w *core.W, v *core.Violation) {
			if v.Entry == "corpus" {
				c14ReplayCorpus(w, v)
				return
			}
			var wit c14Wit
			if stdjson.Unmarshal(v.Witness, &wit) != nil {
				return
			}
			base, _ := observe(modelProject(wit.Model, gen.Canonical))
			c14Compare(w, wit.Model, base, wit.Layout)
		},
		Assumptions: []string{
			"notes contain no '#', '*/' or line breaks (inside /* */ a '#' is note text by design)",
			"the canonical rendering (one element per line, single spaces, LF, // annotations) defines the meaning; error messages and positions may differ between renderings, verdict and code may not",
		},
	})
	_ = strings.Join
}

func c14ReplayCorpus(w *core.W, v *core.Violation) {
	text := string(inputBytes(v))
	lf := strings.ReplaceAll(strings.ReplaceAll(text, "\r\n", "\n"), "\r", "\n")
	lf = strings.TrimSuffix(strings.TrimPrefix(lf, "\n\n"), "\n\n")
	lf = strings.TrimSuffix(strings.ReplaceAll(lf, " \t\n", "\n"), "  ")
	base, _ := observe(&project{Root: lf})
	o, _ := observe(&project{Root: text})
	if o.Code != base.Code || o.Panic != "" || (base.Code == 0 && (o.Example != base.Example || o.Used != base.Used || o.OpenAPI != base.OpenAPI)) {
		w.Violate(bv(v.Clause, "corpus", []byte(text), "reproduced", v.Sig))
	} else if base.Code == 0 && v.Clause == "same-ast" && o.AST != base.AST {
		w.Violate(bv(v.Clause, "corpus", []byte(text), "reproduced", v.Sig))
	}
}
