package props

import (
	stdjson "encoding/json"
	"fmt"
	"strings"

	"github.com/jsightapi/jsight-schema-core/notations/jschema"
	"github.com/jsightapi/jsight-schema-core/notations/jschema/ischema"
	"github.com/jsightapi/jsight-schema-core/notations/jschema/ischema/constraint"
	"github.com/jsightapi/jsight-schema-core/openapi"

	"verifmc/core"
	"verifmc/ref"
)

// C07 — allOf = own + inherited properties, or a clear refusal.

type c07Key struct {
	Name     string `json:"name"`
	Optional bool   `json:"optional,omitempty"`
	Nested   bool   `json:"nested,omitempty"`
	Empty    bool   `json:"empty,omitempty"` // the value is an empty object
}

type c07Type struct {
	Shape string   `json:"shape"` // "object" | "scalar" | "array"
	Own   []c07Key `json:"own,omitempty"`
	AllOf []string `json:"allOf,omitempty"`
	AP    string   `json:"ap,omitempty"` // "", "true", "false", "\"string\"", "\"@c\"", "\"any\""
}

type c07Model struct {
	Types map[string]*c07Type `json:"types"` // "@root" is the root
	// SelfRoot: the root schema is also registered as the type @root (otherwise a
	// reference to @root names a type that does not exist)
	SelfRoot bool `json:"selfRoot,omitempty"`
}

func (t *c07Type) text() string {
	switch t.Shape {
	case "scalar":
		return `1`
	case "array":
		return "[\n\t1\n]"
	case "object-or": // an empty object that is only the example of a type which admits other values too
		return `{} // {or: [{type: "object"}, {type: "string"}]}`
	case "object-any":
		return `{} // {type: "any"}`
	}
	var rules []string
	if len(t.AllOf) == 1 {
		rules = append(rules, fmt.Sprintf(`allOf: %q`, t.AllOf[0]))
	} else if len(t.AllOf) > 1 {
		var q []string
		for _, n := range t.AllOf {
			q = append(q, fmt.Sprintf("%q", n))
		}
		rules = append(rules, "allOf: ["+strings.Join(q, ", ")+"]")
	}
	if t.AP != "" {
		rules = append(rules, "additionalProperties: "+t.AP)
	}
	a := ""
	if len(rules) > 0 {
		a = " // {" + strings.Join(rules, ", ") + "}"
	}
	if len(t.Own) == 0 {
		return "{}" + a
	}
	var b strings.Builder
	b.WriteString("{" + a + "\n")
	for i, k := range t.Own {
		comma := ","
		if i == len(t.Own)-1 {
			comma = ""
		}
		switch {
		case k.Empty && k.Optional:
			fmt.Fprintf(&b, "\t%q: {}%s // {optional: true}\n", k.Name, comma)
		case k.Empty:
			fmt.Fprintf(&b, "\t%q: {}%s\n", k.Name, comma)
		case k.Nested && k.Optional:
			fmt.Fprintf(&b, "\t%q: { // {optional: true}\n\t\t\"n\": 1\n\t}%s\n", k.Name, comma)
		case k.Nested:
			fmt.Fprintf(&b, "\t%q: {\n\t\t\"n\": 1\n\t}%s\n", k.Name, comma)
		case k.Optional:
			fmt.Fprintf(&b, "\t%q: 1%s // {optional: true}\n", k.Name, comma)
		default:
			fmt.Fprintf(&b, "\t%q: 1%s\n", k.Name, comma)
		}
	}
	b.WriteString("}")
	return b.String()
}

func (m *c07Model) project() *project {
	p := &project{Root: m.Types["@root"].text(), Types: map[string]string{}}
	if m.SelfRoot {
		p.Self = "@root"
	}
	for n, t := range m.Types {
		if n != "@root" {
			p.Types[n] = t.text()
		}
	}
	return p
}

type c07Merged struct {
	keys []c07Key
	from map[string][]string // key -> admissible InheritedFrom values ("" for own)
	ap   string
	err  string // "", "non-object", "missing", "cycle", "duplicate", "ap-conflict"
}

func apNorm(ap string) string {
	if ap == `"any"` {
		return "true"
	}
	return ap
}

// merge: the reference meaning of allOf.
func (m *c07Model) merge(name string, stack map[string]bool, memo map[string]*c07Merged) *c07Merged {
	if r, ok := memo[name]; ok {
		return r
	}
	t, ok := m.Types[name]
	if !ok {
		return &c07Merged{err: "missing"}
	}
	if stack[name] {
		return &c07Merged{err: "cycle"}
	}
	stack[name] = true
	defer delete(stack, name)
	res := &c07Merged{from: map[string][]string{}, ap: t.AP}
	if t.Shape != "object" {
		res.err = "not-an-object"
		if len(t.AllOf) == 0 {
			res.err = ""
		}
		res.keys = nil
		memo[name] = res
		return res
	}
	seen := map[string]bool{}
	for _, k := range t.Own {
		res.keys = append(res.keys, k)
		res.from[k.Name] = []string{""}
		seen[k.Name] = true
	}
	for _, parent := range t.AllOf {
		pt, ok := m.Types[parent]
		if parent == "@root" && !m.SelfRoot {
			ok = false
		}
		if !ok {
			res.err = "missing"
			break
		}
		pm := m.merge(parent, stack, memo)
		if pm.err != "" {
			res.err = pm.err
			break
		}
		if pt.Shape != "object" {
			res.err = "not-an-object"
			break
		}
		if pm.ap != "" {
			if res.ap == "" {
				res.ap = pm.ap
			} else if apNorm(res.ap) != apNorm(pm.ap) {
				res.err = "ap-conflict"
				break
			}
		}
		for _, k := range pm.keys {
			if seen[k.Name] {
				res.err = "duplicate"
				break
			}
			seen[k.Name] = true
			res.keys = append(res.keys, k)
			orig := pm.from[k.Name]
			res.from[k.Name] = append([]string{parent}, orig...)
		}
		if res.err != "" {
			break
		}
	}
	if res.err == "" || res.err == "not-an-object" && false {
		memo[name] = res
	}
	return res
}

func c07Case(w *core.W, m *c07Model) {
	w.S.Evaluations++
	w.S.Traces++
	w.S.Transitions += 3
	p := m.project()
	wit, _ := stdjson.Marshal(m)
	in := p.describe()
	// reference
	memo := map[string]*c07Merged{}
	refErr := ""
	var names []string
	for n := range m.Types {
		names = append(names, n)
	}
	sortStrings(names)
	for _, n := range names {
		if r := m.merge(n, map[string]bool{}, memo); r.err != "" && refErr == "" {
			refErr = r.err
		}
	}
	var rootM *c07Merged
	if refErr == "" {
		rootM = m.merge("@root", map[string]bool{}, memo)
	}
	fail := func(clause, detail string, sig map[string]string) {
		w.Violate(core.Violation{Clause: clause, Entry: "allOf", Input: in, Witness: wit, Detail: detail, Sig: sig})
	}
	var err error
	var ex []byte
	var exErr error
	var oasKeys []string
	var inner []string
	var oasAgain string
	innerBy := map[string][]string{}
	rec, site := guard(func() {
		root, berr := buildProject(p)
		if berr != nil {
			err = berr
			return
		}
		err = root.Check()
		if err != nil || refErr != "" {
			// (a project that should have been refused is reported below; its example
			// and property listing may not even terminate)
			return
		}
		ex, exErr = root.Example()
		if len(m.Types["@root"].AllOf) >= 0 && m.Types["@root"].Shape == "object" {
			infos := openapi.Dereference(root)
			if len(infos) > 0 {
				if oi, ok := infos[0].(openapi.ObjectInformer); ok {
					list := func() (out []string) {
						for _, pi := range oi.PropertiesInfos() {
							o := ""
							if pi.Optional() {
								o = "?"
							}
							out = append(out, pi.Key()+o)
						}
						return out
					}
					oasKeys = list()
					// the listing is the same however often it is asked for
					for n := 2; n <= 3; n++ {
						if again := list(); fmt.Sprint(again) != fmt.Sprint(oasKeys) {
							oasAgain = fmt.Sprintf("call %d lists %v, the first call listed %v", n, again, oasKeys)
							break
						}
					}
				}
			}
			marks := func(js *jschema.JSchema) (out []string) {
				on, ok := js.Inner.RootNode().(*ischema.ObjectNode)
				if !ok {
					return nil
				}
				req := map[string]bool{}
				if rk, ok := on.Constraint(constraint.RequiredKeysConstraintType).(*constraint.RequiredKeys); ok && rk != nil {
					for _, k := range rk.Keys() {
						req[k] = true
					}
				}
				for i, c := range on.Children() {
					k := on.Key(i).Key
					o := "?"
					if req[k] {
						o = ""
					}
					out = append(out, fmt.Sprintf("%s%s<%s", k, o, c.InheritedFrom()))
				}
				return out
			}
			inner = marks(root)
			// the registered types were compiled along with the root: their own trees
			// carry the same marks (an ancestor's own property is nobody's heirloom)
			for n, t := range root.UserTypeCollection {
				if js, ok := t.(*jschema.JSchema); ok && js != root && js.Inner != nil {
					innerBy[n] = marks(js)
				}
			}
		}
	})
	if rec != nil {
		fail("no-panic", fmt.Sprintf("%v", rec), map[string]string{"site": site})
		return
	}
	if c07WrapSample(m) && (refErr == "") == (err == nil) {
		c07Wrapped(w, m, p, err, ex, exErr, fail)
	}
	code := errCode(err)
	w.Class(fmt.Sprintf("ref=%s code=%d", map[bool]string{true: "ok", false: refErr}[refErr == ""], code))
	w.S.Nontrivial++
	if refErr != "" {
		if err == nil {
			fail("refused-instead-of-merged", fmt.Sprintf("reference: refusal (%s); Check() accepted, Example()=%s", refErr, trunc(string(ex), 80)), map[string]string{"why": refErr})
		}
		return
	}
	if err != nil {
		fail("valid-inheritance-accepted", "reference: mergeable; Check(): "+errStr(err), map[string]string{"code": fmt.Sprint(code)})
		return
	}
	if m.Types["@root"].Shape != "object" {
		return
	}
	// own + inherited keys, in order
	var want, wantSet []string
	for _, k := range rootM.keys {
		want = append(want, k.Name)
		o := ""
		if k.Optional {
			o = "?"
		}
		wantSet = append(wantSet, k.Name+o)
	}
	if exErr != nil {
		fail("example-key-set", "Example() failed: "+errStr(exErr), nil)
	} else if tree, derr := ref.DecodeOrdered(ex); derr != nil || tree.Kind != 'o' || strings.Join(tree.Keys, ",") != strings.Join(want, ",") {
		fail("example-key-set", fmt.Sprintf("Example() keys %v, own+inherited keys are %v (%s)", tree.Keys, want, trunc(string(ex), 80)), nil)
	}
	if oasAgain != "" {
		fail("openapi-key-set", "PropertiesInfos() "+oasAgain, map[string]string{"what": "repeated-call"})
	}
	sa, sb := append([]string{}, oasKeys...), append([]string{}, wantSet...)
	sortStrings(sa)
	sortStrings(sb)
	if strings.Join(sa, ",") != strings.Join(sb, ",") {
		fail("openapi-key-set", fmt.Sprintf("OpenAPI property listing %v, own+inherited (with optional marks) %v", oasKeys, wantSet), nil)
	}
	// marks and required/optional status in the compiled tree
	if len(inner) != len(rootM.keys) {
		fail("inherited-marks", fmt.Sprintf("compiled object has %v, expected keys %v", inner, wantSet), nil)
		return
	}
	for i, k := range rootM.keys {
		parts := strings.SplitN(inner[i], "<", 2)
		o := ""
		if k.Optional {
			o = "?"
		}
		okFrom := false
		for _, f := range rootM.from[k.Name] {
			if f == parts[1] {
				okFrom = true
			}
		}
		if parts[0] != k.Name+o || !okFrom {
			fail("inherited-marks", fmt.Sprintf("property %d is %q (key?optional<InheritedFrom), expected %s%s from one of %v", i, inner[i], k.Name, o, rootM.from[k.Name]), map[string]string{"what": map[bool]string{true: "status", false: "origin"}[okFrom]})
			return
		}
	}
	// the same for the tree of every registered object type
	for _, n := range names {
		tm := memo[n]
		got, ok := innerBy[n]
		if !ok || n == "@root" || tm == nil || tm.err != "" || m.Types[n].Shape != "object" {
			continue
		}
		if len(got) != len(tm.keys) {
			fail("inherited-marks", fmt.Sprintf("compiled type %s has %v, expected %d keys", n, got, len(tm.keys)), map[string]string{"where": "type"})
			return
		}
		for i, k := range tm.keys {
			parts := strings.SplitN(got[i], "<", 2)
			okFrom := false
			for _, f := range tm.from[k.Name] {
				if f == parts[1] {
					okFrom = true
				}
			}
			if !strings.HasPrefix(parts[0], k.Name) || !okFrom {
				fail("inherited-marks", fmt.Sprintf("in the compiled type %s property %d is %q (key?optional<InheritedFrom), expected %s from one of %v", n, i, got[i], k.Name, tm.from[k.Name]), map[string]string{"where": "type", "what": "origin"})
				return
			}
		}
	}
}

// c07WrapSample: a deterministic eighth of the models also runs as a nested heir.
func c07WrapSample(m *c07Model) bool {
	t := m.Types["@root"]
	if t == nil || t.Shape != "object" || m.SelfRoot {
		return false
	}
	h := len(t.Own)*7 + len(t.AllOf)*3 + len(t.AP)
	for n, x := range m.Types {
		h += len(n) + len(x.Own)*5 + len(x.AllOf)*11 + len(x.AP)*13
	}
	return h%8 == 0
}

// c07Wrapped: the same heir written inline - as a property of a registered type with
// properties before and after it, inside the root schema, and as an array item of a
// type - must be refused or merged exactly like the heir that is the root.
func c07Wrapped(w *core.W, m *c07Model, base *project, baseErr error, baseEx []byte, baseExErr error, fail func(string, string, map[string]string)) {
	heir := base.Root
	indent := func(s, by string) string { return strings.ReplaceAll(s, "\n", "\n"+by) }
	// a trailing annotation of a one-line heir ("{} // {allOf: ...}") has to follow the comma
	place := func(prefix, by, comma string) string {
		t := indent(heir, by)
		if i := strings.Index(t, " // "); i >= 0 && !strings.Contains(t, "\n") {
			return prefix + t[:i] + comma + t[i:]
		}
		return prefix + t + comma
	}
	variants := []struct {
		name  string
		root  string
		wtype string
		path  []string
	}{
		{"property-of-type", "@w", "{\n\t\"head\": 0,\n" + place("\t\"inner\": ", "\t", ",") + "\n\t\"tail\": 2\n}", []string{"inner"}},
		{"property-of-root", "{\n" + place("\t\"inner\": ", "\t", ",") + "\n\t\"tail\": 2\n}", "", []string{"inner"}},
		{"item-of-type", "{\n\t\"x\": @w\n}", "{\n\t\"a\": [\n" + place("\t\t", "\t\t", "") + "\n\t],\n\t\"tail\": 2\n}", []string{"x", "a", "0"}},
	}
	for _, v := range variants {
		q := &project{Root: v.root, Types: map[string]string{}}
		for n, t := range base.Types {
			q.Types[n] = t
		}
		if v.wtype != "" {
			q.Types["@w"] = v.wtype
		}
		var err, exErr error
		var ex []byte
		rec, site := guard(func() {
			root, berr := buildProject(q)
			if berr != nil {
				err = berr
				return
			}
			if err = root.Check(); err == nil {
				ex, exErr = root.Example()
			}
		})
		w.S.Evaluations++
		sig := map[string]string{"where": v.name}
		if rec != nil {
			fail("no-panic", fmt.Sprintf("nested heir (%s): %v at %s", v.name, rec, site), sig)
			return
		}
		if (err == nil) != (baseErr == nil) {
			fail("nested-heir-like-root-heir", fmt.Sprintf("%s: the heir as root: %s; nested in %s: %s", v.name, errStr(baseErr), trunc(q.describe(), 200), errStr(err)), sig)
			return
		}
		if err != nil || baseExErr != nil {
			continue
		}
		bt, e1 := ref.DecodeOrdered(baseEx)
		wt, e2 := ref.DecodeOrdered(ex)
		if exErr != nil || e1 != nil || e2 != nil {
			fail("nested-heir-like-root-heir", fmt.Sprintf("%s: Example() of the nested form: %s err=%v", v.name, trunc(string(ex), 100), exErr), sig)
			return
		}
		cur, ok := wt, true
		for _, step := range v.path {
			next := false
			if cur.Kind == 'o' {
				for i, k := range cur.Keys {
					if k == step {
						cur, next = cur.Items[i], true
						break
					}
				}
			} else if cur.Kind == 'a' && step == "0" && len(cur.Items) > 0 {
				cur, next = cur.Items[0], true
			}
			if !next {
				ok = false
				break
			}
		}
		if !ok || cur.String() != bt.String() {
			fail("nested-heir-like-root-heir", fmt.Sprintf("%s: the heir as root gives %s, nested it gives %s (whole example %s)", v.name, trunc(string(baseEx), 80), trunc(cur.String(), 80), trunc(string(ex), 120)), sig)
			return
		}
	}
}

func c07Run(w *core.W) {
	k := func(n string) c07Key { return c07Key{Name: n} }
	ko := func(n string) c07Key { return c07Key{Name: n, Optional: true} }
	kn := func(n string) c07Key { return c07Key{Name: n, Nested: true} }
	ke := func(n string) c07Key { return c07Key{Name: n, Empty: true} }
	obj := func(own []c07Key, allOf []string, ap string) *c07Type {
		return &c07Type{Shape: "object", Own: own, AllOf: allOf, AP: ap}
	}
	ownRoot := [][]c07Key{nil, {k("k1")}, {k("k1"), ko("k2")}, {ko("k1")}, {k("k1"), kn("k3")}}
	if w.Thorough() {
		ownRoot = append(ownRoot, []c07Key{k("k2")})
	}
	allOfRoot := [][]string{nil}
	cand := []string{"@a", "@b", "@c", "@x", "@root"}
	for _, a := range cand {
		allOfRoot = append(allOfRoot, []string{a})
	}
	for _, a := range cand {
		for _, b := range cand {
			if a != b {
				allOfRoot = append(allOfRoot, []string{a, b})
			}
		}
	}
	// the same ancestor named twice: its properties arrive twice (refused unless it has none)
	allOfRoot = append(allOfRoot, []string{"@a", "@a"}, []string{"@b", "@c", "@b"})
	apRoot := []string{"", "true", "false", `"string"`, `"@c"`}
	if !w.Thorough() {
		apRoot = []string{"", "true", "false"}
	}
	var roots, as, bs, cs []*c07Type
	for _, o := range ownRoot {
		for _, al := range allOfRoot {
			for _, ap := range apRoot {
				roots = append(roots, obj(o, al, ap))
			}
		}
	}
	roots = append(roots, &c07Type{Shape: "scalar"})
	for _, o := range [][]c07Key{nil, {k("k1")}, {k("k2")}, {ko("k2"), k("a1")}} {
		for _, al := range [][]string{nil, {"@b"}, {"@c"}, {"@b", "@c"}, {"@a"}, {"@x"}, {"@root"}, {"@c", "@c"}} {
			for _, ap := range []string{"", "true", "false"} {
				as = append(as, obj(o, al, ap))
			}
		}
	}
	as = append(as, &c07Type{Shape: "scalar"}, &c07Type{Shape: "array"}, &c07Type{Shape: "object-or"}, &c07Type{Shape: "object-any"})
	for _, o := range [][]c07Key{{k("b1")}, {k("k2")}, {ko("b1"), kn("b2")}, {ke("b1"), k("b2")}} {
		for _, al := range [][]string{nil, {"@c"}, {"@a"}} {
			for _, ap := range []string{"", "false", `"string"`} {
				if !w.Thorough() && ap == `"string"` {
					continue
				}
				bs = append(bs, obj(o, al, ap))
			}
		}
	}
	bs = append(bs, &c07Type{Shape: "scalar"}, &c07Type{Shape: "object-or"})
	cs = []*c07Type{obj([]c07Key{k("c1")}, nil, ""), obj([]c07Key{k("k1")}, nil, "true"), obj([]c07Key{ko("c1")}, nil, "false"), obj([]c07Key{ke("c1"), k("c2")}, nil, ""), {Shape: "scalar"}}
	var i int64
	for _, r := range roots {
		for _, a := range as {
			i++
			if !w.Mine(i) {
				continue
			}
			if w.OverBudget() {
				return
			}
			for _, b := range bs {
				for _, c := range cs {
					m := &c07Model{Types: map[string]*c07Type{"@root": r, "@a": a, "@b": b, "@c": c}}
					c07Case(w, m)
					// where somebody refers to @root: the same project with the root
					// registered under that name (inheritance through the root itself)
					if len(a.AllOf) == 1 && a.AllOf[0] == "@root" {
						c07Case(w, &c07Model{Types: m.Types, SelfRoot: true})
					}
				}
			}
		}
	}
	if w.Shard == 0 {
		w.S.States += i * int64(len(bs)*len(cs))
		w.Count("root_forms", int64(len(roots)))
		w.Count("a_forms", int64(len(as)))
		w.Count("b_forms", int64(len(bs)))
		w.Count("c_forms", int64(len(cs)))
		w.Sample((&c07Model{Types: map[string]*c07Type{"@root": roots[40], "@a": as[20], "@b": bs[3], "@c": cs[0]}}).project().describe())
	}
}

func init() {
	Register(&Prop{
		ID:        "C07",
		Technique: "bounded exhaustive enumeration of inheritance graphs (DAGs, diamonds, cycles, missing and non-object ancestors, overlapping keys, additionalProperties combinations) judged by a reference merge",
		Rule:      "@root, @a, @b, @c: objects with own keys from {k1,k2,k3,...} (required/optional/nested/empty-object values) or non-objects (a scalar, an array, an empty object that carries an or rule or type any); allOf = every ordered list of <=2 of {@a,@b,@c,@x(unregistered),self}; additionalProperties in {absent,true,false,(thorough: \"string\",\"@c\")}; reference: refusal for non-object / missing / cyclic / duplicate key / conflicting additionalProperties, otherwise Example() keys = own then inherited in list order, OpenAPI property listing = same set with optional marks, compiled children marked InheritedFrom with required/optional status kept; non-trivial = every project (each has a reference verdict)",
		Bounds:    func(tier string) map[string]any { return map[string]any{"types": 4, "max_allOf_list": 2} },
		Run:       c07Run,
		Replay: func(w *core.W, v *core.Violation) {
			var m c07Model
			if stdjson.Unmarshal(v.Witness, &m) == nil {
				c07Case(w, &m)
			}
		},
		Assumptions: []string{
			"any error is accepted as a refusal (codes are tallied); InheritedFrom may name either the immediate ancestor or the type that originally declares the property",
			"additionalProperties true and \"any\" are treated as equal",
		},
	})
}
