package props

import (
	stdjson "encoding/json"
	"errors"
	"fmt"
	"io"

	schema "github.com/jsightapi/jsight-schema-core"
	jdoc "github.com/jsightapi/jsight-schema-core/formats/json"
	"github.com/jsightapi/jsight-schema-core/lexeme"

	"verifmc/core"
	"verifmc/ref"
	"verifmc/seq"
	"verifmc/state"
)

// C12 — JSON document scanner accepts exactly RFC 8259; lexemes rebuild the document.

var c12Tokens = toks(`{`, `}`, `[`, `]`, `:`, `,`, `"`, `a`, `\`, `u`, `0`, `1`, `-`, `.`, `e`, `+`, `true`, `null`, `false`, ` `, "\n", `"k"`, "\x01", "é", "\x1f", "\x7f")

func toks(ss ...string) [][]byte {
	out := make([][]byte, len(ss))
	for i, s := range ss {
		out[i] = []byte(s)
	}
	return out
}

func c12N(tier string) int {
	if tier == "thorough" {
		return 7
	}
	return 6
}

func init() {
	Register(&Prop{
		ID:        "C12",
		Technique: "bounded exhaustive enumeration of token strings (E-SEQ) and explicit-state BFS over the real scanner's abstract states (E-STATE), each judged against an RFC 8259 push-down recogniser + encoding/json",
		Rule: "E-SEQ: every string of <= N tokens over a 24-token JSON alphabet (DFS, viable-prefix pruning where reference and implementation are both dead) in both option settings; " +
			"E-STATE: every reachable abstract scanner state x every input byte class x end-of-input; non-trivial = distinct strings that are viable JSON prefixes or complete JSON texts",
		Bounds: func(tier string) map[string]any {
			return map[string]any{"alphabet_tokens": len(c12Tokens), "max_tokens": c12N(tier), "state_nesting_bound": c12Depth(tier)}
		},
		Run:    c12Run,
		Replay: func(w *core.W, v *core.Violation) { c12Case(w, inputBytes(v), "replay") },
		Assumptions: []string{
			"encoding/json (Valid, Decoder) is a correct RFC 8259 implementation; the hand-written PDA is cross-checked against it on every enumerated string",
			"strings in the alphabet are valid UTF-8 (RFC 8259 is silent about ill-formed UTF-8; those inputs are exercised for C02 only)",
			"in trailing-characters mode maximal-munch ambiguities such as `1.x` carry no claim",
		},
	})
}

// c12Gaps: lead x value x every blank run of <= 3 (thorough 4) over {space, tab, LF, CR} x
// tail: where the value ends does not depend on which blanks follow it.
func c12Gaps(w *core.W) {
	maxGap := 3
	if w.Thorough() {
		maxGap = 4
	}
	var gaps []string
	var gen func(p string)
	gen = func(p string) {
		gaps = append(gaps, p)
		if len(p) == maxGap {
			return
		}
		for _, c := range []string{" ", "\t", "\n", "\r"} {
			gen(p + c)
		}
	}
	gen("")
	var i int64
	for _, lead := range []string{"", " ", "\r\n", "\t\r"} {
		for _, val := range []string{`{}`, `42`, `null`, `"s"`, `[1]`, `-0.5`, `{"a":[true]}`, `0`} {
			for _, gap := range gaps {
				i++
				if !w.Mine(i) {
					continue
				}
				for _, tail := range []string{"", "x", "// c", "{", ",", "\"", "]"} {
					c12Case(w, []byte(lead+val+gap+tail), "gaps")
				}
			}
		}
	}
	if w.Shard == 0 {
		w.Count("gap_documents", i*7)
	}
}

func c12Run(w *core.W) {
	c12Gaps(w)
	N := c12N(w.Tier)
	e := &seq.Enum{Tokens: c12Tokens, N: N, W: w}
	e.Run(func(s []byte, ntok int, own bool) bool {
		return c12Visit(w, s, own, true)
	})
	// pruning audit: the same clauses without pruning up to N-2 tokens
	a := &seq.Enum{Tokens: c12Tokens, N: N - 2, W: w}
	a.Run(func(s []byte, ntok int, own bool) bool {
		if own {
			w.Count("pruning_audit_strings", 1)
		}
		return c12Visit(w, s, own, false)
	})
	w.S.States += e.Nodes
	c12StateSearch(w)
}

func c12Visit(w *core.W, s []byte, own bool, allowPrune bool) bool {
	complete, dead := ref.JSONStatus(s)
	if !own {
		return false
	}
	rejectedHard := c12Case(w, s, "seq")
	if !dead {
		w.S.Nontrivial++
		if complete {
			w.Sample(string(s))
		}
	}
	return allowPrune && dead && rejectedHard
}

type c12Frame struct {
	typ lexeme.LexEventType
	val ref.JVal
	key string
	has bool // a completed child value is waiting to be attached
	cv  ref.JVal
}

// c12Case applies every clause to one input. It returns true when both option
// settings rejected the input with a positioned error strictly inside the input
// (so that no extension can change the verdict).
func c12Case(w *core.W, in []byte, entry string) (rejectedHard bool) {
	w.S.Evaluations++
	w.S.Traces++
	w.S.Transitions += int64(len(in)) + 1
	p := ref.NewJPDA()
	lastCompleteEnd := -1 // smallest j: b[:j] complete and (j==len or b[:j+1] dead)
	anyComplete := false
	deadAt := -1
	lastLive := p.StateName()
	for i, c := range in {
		if p.Complete() {
			anyComplete = true
		}
		wasComplete := p.Complete()
		lastLive = p.StateName()
		p.Step(c)
		if !p.Dead() {
			lastLive = p.StateName()
		}
		if p.Dead() {
			if wasComplete && lastCompleteEnd < 0 {
				lastCompleteEnd = i
			}
			deadAt = i
			break
		}
	}
	complete := false
	if deadAt < 0 {
		complete = p.Complete()
		if complete {
			anyComplete = true
			if lastCompleteEnd < 0 {
				lastCompleteEnd = len(in)
			}
		}
	}
	if complete != stdjson.Valid(in) {
		w.Violate(bv("ENGINE-oracle-mismatch", entry, in, fmt.Sprintf("PDA complete=%v json.Valid=%v", complete, !complete), nil))
		return false
	}
	stName := lastLive

	// ---- default mode
	var err error
	rec, site := guard(func() { err = jdoc.New("doc", in).Check() })
	if rec != nil {
		w.Violate(bv("no-panic", entry, in, fmt.Sprintf("Check panicked: %v", rec), map[string]string{"site": site}))
		return false
	}
	accepted := err == nil
	switch {
	case accepted && !complete:
		w.Class("default:accepts-invalid")
		w.Violate(bv("accept-iff-rfc8259", entry, in, "accepted, but not an RFC 8259 text", map[string]string{"dir": "accepts-invalid", "ref_state": stName}))
	case !accepted && complete:
		w.Class("default:rejects-valid")
		w.Violate(bv("accept-iff-rfc8259", entry, in, "rejected: "+errStr(err), map[string]string{"dir": "rejects-valid", "ref_state": stName}))
	case accepted:
		w.Class("default:accept")
		c12Lexemes(w, in, entry, false, len(in))
	default:
		w.Class("default:reject")
	}
	hard1 := false
	if pe, ok := err.(interface{ Index() uint }); ok && !accepted {
		hard1 = int(pe.Index()) < len(in) && deadAt >= 0 && int(pe.Index()) <= deadAt
	}

	// ---- trailing-characters mode
	var err2 error
	rec, site = guard(func() { err2 = jdoc.New("doc", in, jdoc.AllowTrailingNonSpaceCharacters()).Check() })
	if rec != nil {
		w.Violate(bv("no-panic", entry+"/trailing", in, fmt.Sprintf("Check panicked: %v", rec), map[string]string{"site": site}))
		return false
	}
	acc2 := err2 == nil
	switch {
	case lastCompleteEnd >= 0 && !acc2:
		w.Class("trailing:rejects-value-plus-rest")
		w.Violate(bv("trailing-accepts-value-plus-anything", entry, in, "rejected: "+errStr(err2), map[string]string{"ref_state": stName}))
	case !anyComplete && acc2:
		w.Class("trailing:accepts-no-value")
		w.Violate(bv("trailing-rejects-no-value", entry, in, "accepted although no prefix is a JSON value", map[string]string{"ref_state": stName}))
	case lastCompleteEnd >= 0:
		w.Class("trailing:accept")
		c12Lexemes(w, in, entry+"/trailing", true, lastCompleteEnd)
	case anyComplete:
		w.Class("trailing:no-claim")
	default:
		w.Class("trailing:reject")
	}
	hard2 := false
	if pe, ok := err2.(interface{ Index() uint }); ok && !acc2 {
		hard2 = int(pe.Index()) < len(in) && deadAt >= 0
	}
	if hard1 && acc2 && lastCompleteEnd >= 0 && lastCompleteEnd < len(in) {
		// value complete and the foreign text has begun: the scanner stops at the
		// first foreign byte in trailing mode and fails on it in default mode, so
		// extensions cannot change any verdict (checked by the pruning audit).
		return true
	}
	return hard1 && hard2 && deadAt >= 0 && deadAt < len(in)
}

func trimRightBlank(b []byte) int {
	n := len(b)
	for n > 0 && (b[n-1] == ' ' || b[n-1] == '\t' || b[n-1] == '\n' || b[n-1] == '\r') {
		n--
	}
	return n
}

// c12Lexemes checks the lexeme stream and Len() of an accepted document whose JSON
// value is in[:valueEnd].
func c12Lexemes(w *core.W, in []byte, entry string, trailing bool, valueEnd int) {
	mk := func() schema.Document {
		if trailing {
			return jdoc.New("doc", in, jdoc.AllowTrailingNonSpaceCharacters())
		}
		return jdoc.New("doc", in)
	}
	want, derr := ref.DecodeOrdered(in[:valueEnd])
	if derr != nil {
		w.Violate(bv("ENGINE-oracle-mismatch", entry, in, "reference decoder failed: "+derr.Error(), nil))
		return
	}
	fail := func(clause, detail string, sig map[string]string) {
		w.Violate(bv(clause, entry, in, detail, sig))
	}
	// Len
	var l uint
	var lerr error
	if rec, site := guard(func() { l, lerr = mk().Len() }); rec != nil {
		fail("no-panic", fmt.Sprintf("Len panicked: %v", rec), map[string]string{"site": site})
		return
	}
	wantLen := trimRightBlank(in[:valueEnd])
	if lerr != nil {
		fail("len", "Len() error on accepted document: "+errStr(lerr), nil)
	} else if int(l) != wantLen {
		next := "eof"
		if valueEnd < len(in) {
			next = "foreign-byte-follows"
			if valueEnd > 0 && isBlankB(in[valueEnd-1]) {
				next = "blank-then-foreign-byte"
			}
		}
		fail("len", fmt.Sprintf("Len()=%d, value without trailing blanks has length %d", l, wantLen), map[string]string{"delta": fmt.Sprint(int(l) - wantLen), "after_value": next})
	}
	// lexeme stream
	d := mk()
	var stack []c12Frame
	var root *ref.JVal
	n := 0
	for {
		var lex lexeme.LexEvent
		var err error
		if rec, site := guard(func() { lex, err = d.NextLexeme() }); rec != nil {
			fail("no-panic", fmt.Sprintf("NextLexeme panicked: %v", rec), map[string]string{"site": site})
			return
		}
		if errors.Is(err, io.EOF) {
			break
		}
		if err != nil {
			fail("lexemes", "NextLexeme error on accepted document: "+errStr(err), nil)
			return
		}
		n++
		if n > 10*len(in)+10 {
			fail("lexemes", "lexeme stream does not end", nil)
			return
		}
		t := lex.Type()
		b, e := int(lex.Begin()), int(lex.End())
		if b < 0 || e < b || e >= len(in) {
			fail("lexemes", fmt.Sprintf("%s span [%d:%d] outside content of length %d", t, b, e, len(in)), map[string]string{"type": t.String(), "what": "span-outside"})
			return
		}
		if t.IsOpening() {
			stack = append(stack, c12Frame{typ: t})
			switch t {
			case lexeme.ObjectBegin:
				stack[len(stack)-1].val = ref.JVal{Kind: 'o'}
			case lexeme.ArrayBegin:
				stack[len(stack)-1].val = ref.JVal{Kind: 'a'}
			}
			continue
		}
		if len(stack) == 0 {
			fail("lexemes", fmt.Sprintf("%s without opening event", t), map[string]string{"type": t.String(), "what": "nesting"})
			return
		}
		top := stack[len(stack)-1]
		stack = stack[:len(stack)-1]
		okPair := map[lexeme.LexEventType]lexeme.LexEventType{
			lexeme.LiteralEnd: lexeme.LiteralBegin, lexeme.ObjectEnd: lexeme.ObjectBegin, lexeme.ArrayEnd: lexeme.ArrayBegin,
			lexeme.ObjectKeyEnd: lexeme.ObjectKeyBegin, lexeme.ObjectValueEnd: lexeme.ObjectValueBegin, lexeme.ArrayItemEnd: lexeme.ArrayItemBegin,
		}
		if okPair[t] != top.typ || (t != lexeme.LiteralEnd && okPair[t] == 0 && t != lexeme.LiteralEnd) {
			fail("lexemes", fmt.Sprintf("%s closes %s", t, top.typ), map[string]string{"type": t.String(), "what": "nesting"})
			return
		}
		span := in[b : e+1]
		var done *ref.JVal
		switch t {
		case lexeme.LiteralEnd:
			v, ok := c12Scalar(span)
			if !ok {
				fail("lexemes", fmt.Sprintf("literal span %q is not exactly one JSON scalar", span), map[string]string{"type": t.String(), "what": "literal-span"})
				return
			}
			done = &v
		case lexeme.ObjectKeyEnd:
			k, ok := ref.DecodeString(span)
			if len(span) < 2 || span[0] != '"' || span[len(span)-1] != '"' {
				ok = false // the span must be exactly the key literal, byte for byte
			}
			if !ok {
				fail("lexemes", fmt.Sprintf("key span %q is not exactly one JSON string", span), map[string]string{"type": t.String(), "what": "key-span"})
				return
			}
			if len(stack) == 0 || stack[len(stack)-1].typ != lexeme.ObjectBegin {
				fail("lexemes", "key outside object", map[string]string{"type": t.String(), "what": "nesting"})
				return
			}
			stack[len(stack)-1].key = k
			continue
		case lexeme.ObjectEnd, lexeme.ArrayEnd:
			if (t == lexeme.ObjectEnd && (span[0] != '{' || span[len(span)-1] != '}')) || (t == lexeme.ArrayEnd && (span[0] != '[' || span[len(span)-1] != ']')) {
				fail("lexemes", fmt.Sprintf("%s span %q is not the container's text", t, span), map[string]string{"type": t.String(), "what": "container-span"})
				return
			}
			v := top.val
			done = &v
		case lexeme.ObjectValueEnd, lexeme.ArrayItemEnd:
			if !top.has {
				fail("lexemes", fmt.Sprintf("%s without a value inside", t), map[string]string{"type": t.String(), "what": "nesting"})
				return
			}
			if len(stack) == 0 {
				fail("lexemes", fmt.Sprintf("%s at top level", t), map[string]string{"type": t.String(), "what": "nesting"})
				return
			}
			par := &stack[len(stack)-1]
			if t == lexeme.ObjectValueEnd {
				if par.typ != lexeme.ObjectBegin {
					fail("lexemes", "object value outside object", map[string]string{"type": t.String(), "what": "nesting"})
					return
				}
				par.val.Keys = append(par.val.Keys, par.key)
			} else if par.typ != lexeme.ArrayBegin {
				fail("lexemes", "array item outside array", map[string]string{"type": t.String(), "what": "nesting"})
				return
			}
			par.val.Items = append(par.val.Items, top.cv)
			continue
		default:
			fail("lexemes", fmt.Sprintf("unexpected event %s in a JSON document", t), map[string]string{"type": t.String(), "what": "foreign-event"})
			return
		}
		// a value was completed: hand it to the enclosing value/item frame or make it the root
		if len(stack) == 0 {
			if root != nil {
				fail("lexemes", "two root values", map[string]string{"what": "nesting"})
				return
			}
			root = done
		} else {
			par := &stack[len(stack)-1]
			if par.typ != lexeme.ObjectValueBegin && par.typ != lexeme.ArrayItemBegin || par.has {
				fail("lexemes", fmt.Sprintf("value completed inside %s", par.typ), map[string]string{"what": "nesting"})
				return
			}
			par.has, par.cv = true, *done
		}
	}
	if len(stack) != 0 || root == nil {
		fail("lexemes", fmt.Sprintf("stream ended with %d open events, root=%v", len(stack), root != nil), map[string]string{"what": "nesting"})
		return
	}
	if root.String() != want.String() {
		fail("lexemes", fmt.Sprintf("tree rebuilt from lexemes %s != decoder tree %s", trunc(root.String(), 120), trunc(want.String(), 120)), map[string]string{"what": "tree"})
	}
}

func isBlankB(c byte) bool { return c == ' ' || c == '\t' || c == '\n' || c == '\r' }

func c12Scalar(span []byte) (ref.JVal, bool) {
	if len(span) == 0 || isBlankB(span[0]) || isBlankB(span[len(span)-1]) {
		return ref.JVal{}, false
	}
	v, err := ref.DecodeOrdered(span)
	if err != nil || v.Kind == 'o' || v.Kind == 'a' {
		return ref.JVal{}, false
	}
	return v, true
}

func c12Depth(tier string) int {
	if tier == "thorough" {
		return 10
	}
	return 8
}

var c12Symbols = []byte("{}[]:,\"\\/bfnrtuaeEsl019-+. \t\n\rx\x01\x1f\x7f\xc3\xa9\x00")

func c12StateSearch(w *core.W) {
	for _, trailing := range []bool{false, true} {
		tr := trailing
		name := "jsonscanner"
		if tr {
			name = "jsonscanner-trailing"
		}
		s := &state.Search{W: w, Name: name, Symbols: c12Symbols, MaxDepth: c12Depth(w.Tier), MaxLen: 64,
			Key: func(p []byte) (string, int, bool) { return jdoc.VerifKeyAfter(p, tr) },
			Check: func(in []byte) {
				c12Case(w, in, "state")
			},
			Complete: ref.JSONCompletion,
			Verdict: func(in []byte) string {
				var err error
				if tr {
					err = jdoc.New("d", in, jdoc.AllowTrailingNonSpaceCharacters()).Check()
				} else {
					err = jdoc.New("d", in).Check()
				}
				if err == nil {
					return "ok"
				}
				return "rej"
			},
		}
		s.Run()
		w.S.Transitions += 0
	}
}
