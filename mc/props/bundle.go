package props

import (
	"errors"
	"fmt"
	"io"
	"regexp"
	"runtime"
	"strings"

	schema "github.com/jsightapi/jsight-schema-core"
	jbytes "github.com/jsightapi/jsight-schema-core/bytes"
	"github.com/jsightapi/jsight-schema-core/errs"
	jdoc "github.com/jsightapi/jsight-schema-core/formats/json"
	jplain "github.com/jsightapi/jsight-schema-core/formats/plaintext"
	jnum "github.com/jsightapi/jsight-schema-core/json"
	"github.com/jsightapi/jsight-schema-core/notations/jschema"
	jregex "github.com/jsightapi/jsight-schema-core/notations/regex"
	"github.com/jsightapi/jsight-schema-core/openapi"
	"github.com/jsightapi/jsight-schema-core/rules/enum"

	"verifmc/core"
)

// The call bundle shared by C02 (no panic / hang / abort) and C16 (well-formed
// diagnostics): every public operation of an entry point on one input, each under
// recover. For every call the sink receives (op, error, recovered value, site).

type callSink func(op string, err error, rec any, site string, text []byte, texts map[string][]byte)

type project struct {
	Root      string            `json:"root"`
	Types     map[string]string `json:"types,omitempty"`     // name -> text (jschema)
	Regex     map[string]string `json:"regex,omitempty"`     // name -> regex schema text
	Enums     map[string]string `json:"enums,omitempty"`     // name -> enum rule text
	Order     []string          `json:"order,omitempty"`     // registration order of Types (default: sorted)
	Self      string            `json:"self,omitempty"`      // when set: the root file is named so and the root is registered as this type too
	RuleOrder []string          `json:"ruleOrder,omitempty"` // registration order of Enums (default: sorted)
	// Nested: type name -> the types registered on that type's own schema object
	// (fresh objects, file name "<name> in <owner>") before it is registered on the root.
	Nested map[string]map[string]string `json:"nested,omitempty"`
	// Mesh: every type object additionally gets every type object (itself included)
	// registered on it - the way an API-level caller wires a catalogue of types.
	Mesh bool `json:"mesh,omitempty"`
	// TypeFile: when set, every type's text is filed under this one name (type
	// bodies cut out of one source file) instead of under the type's own name.
	TypeFile string `json:"typeFile,omitempty"`
	// OptionalKeys: every schema object of the project is created with
	// AreKeysOptionalByDefault (a property without an `optional` rule is optional).
	OptionalKeys bool `json:"optionalKeys,omitempty"`
}

func call(sink callSink, op string, text []byte, texts map[string][]byte, f func() error) (ok bool) {
	var err error
	rec, site := guard(func() { err = f() })
	sink(op, err, rec, site, text, texts)
	return rec == nil && err == nil
}

func bundleSchema(in []byte, sink callSink) {
	s := jschema.New("schema", in)
	call(sink, "Len", in, nil, func() error { _, e := s.Len(); return e })
	okc := call(sink, "Check", in, nil, func() error { return s.Check() })
	call(sink, "Example", in, nil, func() error { _, e := s.Example(); return e })
	hasRoot := false
	call(sink, "GetAST", in, nil, func() error { a, e := s.GetAST(); hasRoot = e == nil && a.TokenType != ""; return e })
	call(sink, "UsedUserTypes", in, nil, func() error { _, e := s.UsedUserTypes(); return e })
	if okc && hasRoot { // OpenAPI conversion is defined for accepted schemas that have a root value
		call(sink, "OpenAPI", in, nil, func() error { _, e := openapi.NewSchemaObject(s).MarshalJSON(); return e })
		call(sink, "Dereference", in, nil, func() error { _ = openapi.Dereference(s); return nil })
	}
	// the same text used as a user type of a referring root
	root := jschema.New("root", `@t`)
	texts := map[string][]byte{"t": in, "root": []byte(`@t`)}
	if call(sink, "AddType", in, texts, func() error { return root.AddType("@t", jschema.New("t", in)) }) {
		call(sink, "Check(as type)", []byte(`@t`), texts, func() error { return root.Check() })
		call(sink, "Example(as type)", []byte(`@t`), texts, func() error { _, e := root.Example(); return e })
	}
}

func bundleEnum(in []byte, sink callSink) {
	e := enum.New("enum", in)
	call(sink, "Len", in, nil, func() error { _, err := e.Len(); return err })
	call(sink, "Check", in, nil, func() error { return e.Check() })
	call(sink, "GetAST", in, nil, func() error { _, err := e.GetAST(); return err })
	call(sink, "Values", in, nil, func() error { _, err := e.Values(); return err })
	rootText := []byte(`1 // {enum: @e}`)
	root := jschema.New("root", rootText)
	texts := map[string][]byte{"enum": in, "root": rootText}
	if call(sink, "AddRule", in, texts, func() error { return root.AddRule("@e", enum.New("enum", in)) }) {
		call(sink, "Check(with rule)", rootText, texts, func() error { return root.Check() })
	}
}

func bundleRegex(in []byte, sink callSink) {
	r := jregex.New("regex", in)
	call(sink, "Len", in, nil, func() error { _, e := r.Len(); return e })
	okc := call(sink, "Check", in, nil, func() error { return r.Check() })
	call(sink, "Example", in, nil, func() error { _, e := r.Example(); return e })
	call(sink, "GetAST", in, nil, func() error { _, e := r.GetAST(); return e })
	call(sink, "Pattern", in, nil, func() error { _, e := r.Pattern(); return e })
	call(sink, "UsedUserTypes", in, nil, func() error { _, e := r.UsedUserTypes(); return e })
	if okc {
		call(sink, "OpenAPI", in, nil, func() error { _, e := openapi.NewSchemaObject(r).MarshalJSON(); return e })
	}
	root := jschema.New("root", `@r`)
	texts := map[string][]byte{"regex": in, "root": []byte(`@r`)}
	if call(sink, "AddType", in, texts, func() error { return root.AddType("@r", jregex.New("regex", in)) }) {
		call(sink, "Check(as type)", []byte(`@r`), texts, func() error { return root.Check() })
	}
}

func bundleJSONDoc(in []byte, sink callSink) {
	for _, trailing := range []bool{false, true} {
		mk := func() schema.Document {
			if trailing {
				return jdoc.New("doc", in, jdoc.AllowTrailingNonSpaceCharacters())
			}
			return jdoc.New("doc", in)
		}
		sfx := ""
		if trailing {
			sfx = "/trailing"
		}
		call(sink, "Len"+sfx, in, nil, func() error { _, e := mk().Len(); return e })
		call(sink, "Check"+sfx, in, nil, func() error { return mk().Check() })
		call(sink, "NextLexeme"+sfx, in, nil, func() error {
			d := mk()
			for i := 0; i < 10*len(in)+16; i++ {
				_, err := d.NextLexeme()
				if errors.Is(err, io.EOF) {
					return nil
				}
				if err != nil {
					return err
				}
			}
			return fmt.Errorf("VERIF: lexeme stream does not end")
		})
	}
}

// bundlePlaintext: the plain-text document (a Document whose whole content is one literal).
func bundlePlaintext(in []byte, sink callSink) {
	call(sink, "Len", in, nil, func() error { _, e := jplain.New("doc", in).Len(); return e })
	call(sink, "Check", in, nil, func() error { return jplain.New("doc", in).Check() })
	call(sink, "NextLexeme", in, nil, func() error {
		d := jplain.New("doc", in)
		for i := 0; i < 3; i++ { // (this document never reports the end of its stream)
			lex, err := d.NextLexeme()
			if err != nil {
				if errors.Is(err, io.EOF) {
					return nil
				}
				return err
			}
			_ = lex.Type().String()
			_ = d.Content().Len()
		}
		return nil
	})
}

func bundleNumber(in []byte, sink callSink) {
	call(sink, "NewNumber", in, nil, func() error {
		n, e := jnum.NewNumber(jbytes.NewBytes(in))
		if e == nil {
			_ = n.String()
			_ = n.LengthOfFractionalPart()
			_ = n.Cmp(n)
		}
		return e
	})
	call(sink, "GuessSchemaType", in, nil, func() error { _, e := schema.GuessSchemaType(in); return e })
}

// buildProject wires a project the way the repository's own tests do: rules first,
// then types (each with its own rules), self reference allowed.
func buildProject(p *project) (*jschema.JSchema, error) {
	rootName := "root"
	if p.Self != "" {
		rootName = p.Self
	}
	if p.TypeFile == unnamedFiles {
		rootName = ""
	}
	var opts []jschema.Option
	if p.OptionalKeys {
		opts = append(opts, func(s *jschema.JSchema) { s.AreKeysOptionalByDefault = true })
	}
	root := jschema.New(rootName, p.Root, opts...)
	ruleOrder := p.RuleOrder
	if ruleOrder == nil {
		ruleOrder = sortedKeys(p.Enums)
	}
	addRules := func(s *jschema.JSchema) error {
		for _, n := range ruleOrder {
			if err := s.AddRule(n, enum.New(n, p.Enums[n])); err != nil {
				return err
			}
		}
		return nil
	}
	if err := addRules(root); err != nil {
		return root, err
	}
	order := p.Order
	if order == nil {
		order = sortedKeys(p.Types)
	}
	objs := map[string]*jschema.JSchema{}
	for _, n := range order {
		fn := n
		if p.TypeFile != "" {
			fn = p.TypeFile
		}
		if p.TypeFile == unnamedFiles {
			fn = ""
		}
		t := jschema.New(fn, p.Types[n], opts...)
		if err := addRules(t); err != nil {
			return root, err
		}
		objs[n] = t
	}
	for _, n := range order {
		for _, in := range sortedKeys(p.Nested[n]) {
			if err := objs[n].AddType(in, jschema.New(in+" in "+n, p.Nested[n][in])); err != nil {
				return root, err
			}
		}
	}
	if p.Mesh {
		for _, n := range order {
			for _, m := range order {
				if err := objs[n].AddType(m, objs[m]); err != nil {
					return root, err
				}
			}
		}
	}
	for _, n := range order {
		if err := root.AddType(n, objs[n]); err != nil {
			return root, err
		}
	}
	for _, n := range sortedKeys(p.Regex) {
		if err := root.AddType(n, jregex.New(n, p.Regex[n])); err != nil {
			return root, err
		}
	}
	if p.Self != "" {
		if err := root.AddType(p.Self, root); err != nil {
			return root, err
		}
	}
	return root, nil
}

func sortedKeys(m map[string]string) []string {
	ks := make([]string, 0, len(m))
	for k := range m {
		ks = append(ks, k)
	}
	sortStrings(ks)
	return ks
}

func sortStrings(a []string) {
	for i := 1; i < len(a); i++ {
		for j := i; j > 0 && a[j] < a[j-1]; j-- {
			a[j], a[j-1] = a[j-1], a[j]
		}
	}
}

// texts maps file names (types and rules are filed under their own names) to contents.
// unnamedFiles as TypeFile: the root and every type are created with an empty file name
// (texts that never were files); a diagnostic then names "" and may refer to any of them.
const unnamedFiles = "<unnamed>"

func (p *project) texts() map[string][]byte {
	if p.TypeFile == unnamedFiles {
		t := map[string][]byte{"": []byte(p.Root)}
		for i, k := range sortedKeys(p.Types) {
			t[fmt.Sprintf("#%d", i+2)] = []byte(p.Types[k])
		}
		return t
	}
	t := map[string][]byte{"root": []byte(p.Root)}
	if p.Self != "" {
		t[p.Self] = []byte(p.Root)
	}
	if p.TypeFile != "" {
		for i, k := range sortedKeys(p.Types) {
			key := p.TypeFile
			if i > 0 {
				key = fmt.Sprintf("%s#%d", p.TypeFile, i+1)
			}
			t[key] = []byte(p.Types[k])
		}
	} else {
		for k, v := range p.Types {
			t[k] = []byte(v)
		}
	}
	for k, v := range p.Regex {
		t[k] = []byte(v)
	}
	for o, m := range p.Nested {
		for k, v := range m {
			t[k+" in "+o] = []byte(v)
		}
	}
	for k, v := range p.Enums {
		t[k] = []byte(v)
	}
	return t
}

func bundleProject(p *project, sink callSink) {
	var root *jschema.JSchema
	texts := p.texts()
	rt := []byte(p.Root)
	if !call(sink, "build", rt, texts, func() error { var e error; root, e = buildProject(p); return e }) {
		return
	}
	call(sink, "Len", rt, texts, func() error { _, e := root.Len(); return e })
	okc := call(sink, "Check", rt, texts, func() error { return root.Check() })
	call(sink, "Example", rt, texts, func() error { _, e := root.Example(); return e })
	hasRoot := false
	call(sink, "GetAST", rt, texts, func() error { a, e := root.GetAST(); hasRoot = e == nil && a.TokenType != ""; return e })
	call(sink, "UsedUserTypes", rt, texts, func() error { _, e := root.UsedUserTypes(); return e })
	if okc && hasRoot {
		call(sink, "OpenAPI", rt, texts, func() error { _, e := openapi.NewSchemaObject(root).MarshalJSON(); return e })
		call(sink, "Dereference", rt, texts, func() error { _ = openapi.Dereference(root); return nil })
	}
}

// ---------------------------------------------------------------- C02 sink

func c02Sink(w *core.W, entry string, in []byte, wit []byte) callSink {
	return func(op string, err error, rec any, site string, _ []byte, _ map[string][]byte) {
		w.S.Transitions++
		if rec == nil {
			if err != nil && strings.HasPrefix(errStr(err), "VERIF: lexeme stream does not end") {
				v := bv("terminates", entry, in, op+": "+err.Error(), map[string]string{"op": op})
				v.Witness = wit
				w.Violate(v)
			}
			return
		}
		kind := fmt.Sprintf("%T", rec)
		if _, ok := rec.(runtime.Error); ok {
			kind = "runtime.Error"
		}
		v := bv("no-panic", entry, in, fmt.Sprintf("%s panicked (%s): %v", op, kind, trunc(fmt.Sprint(rec), 160)), map[string]string{"op": opClass(op), "site": site})
		v.Witness = wit
		w.Violate(v)
	}
}

func opClass(op string) string {
	if i := strings.IndexAny(op, "(/"); i > 0 {
		return op[:i]
	}
	return op
}

// ---------------------------------------------------------------- C16 sink

var addrRe = regexp.MustCompile(`0x[0-9a-f]{6,}|&\{|%![a-zA-Z]\(|goroutine \d+ \[`)

// findDump looks for address-like tokens / struct dumps (cheap pre-filter first).
func findDump(msg string) string {
	if !strings.Contains(msg, "0x") && !strings.Contains(msg, "&{") && !strings.Contains(msg, "%!") && !strings.Contains(msg, "goroutine ") {
		return ""
	}
	return addrRe.FindString(msg)
}

type kitErr interface {
	error
	Index() uint
	Line() uint
	Column() uint
	Message() string
	ErrCode() int
	IncorrectUserType() string
	Filename() string
}

// newlineConvention: "lf", "crlf", "cr", "" (none) or "mixed".
func newlineConvention(t []byte) string {
	lf, cr, crlf := 0, 0, 0
	for i := 0; i < len(t); i++ {
		switch t[i] {
		case '\r':
			if i+1 < len(t) && t[i+1] == '\n' {
				crlf++
				i++
			} else {
				cr++
			}
		case '\n':
			lf++
		}
	}
	switch {
	case lf+cr+crlf == 0:
		return ""
	case cr == 0 && crlf == 0:
		return "lf"
	case lf == 0 && crlf == 0:
		return "cr"
	case lf == 0 && cr == 0:
		return "crlf"
	}
	return "mixed"
}

// refLineCol: 1-based line and column (bytes) of index under the text's convention;
// ok=false when the index sits on a terminator byte or the text mixes conventions.
func refLineCol(t []byte, idx int) (line, col int, lineText string, ok bool) {
	conv := newlineConvention(t)
	if conv == "mixed" || idx >= len(t) || t[idx] == '\n' || t[idx] == '\r' {
		return 0, 0, "", false
	}
	line, start := 1, 0
	for i := 0; i < idx; i++ {
		if t[i] == '\n' || (t[i] == '\r' && conv == "cr") {
			line++
			start = i + 1
		}
	}
	end := idx
	for end < len(t) && t[end] != '\n' && t[end] != '\r' {
		end++
	}
	return line, idx - start + 1, string(t[start:end]), true
}

func c16Sink(w *core.W, entry string, in []byte, wit []byte) callSink {
	return func(op string, err error, rec any, site string, text []byte, texts map[string][]byte) {
		w.S.Transitions++
		if rec != nil || err == nil {
			return // panics are C02's business
		}
		if strings.HasPrefix(errStr(err), "VERIF:") {
			return
		}
		w.S.Nontrivial++
		fail := func(clause, detail string, sig map[string]string) {
			if sig == nil {
				sig = map[string]string{}
			}
			sig["op"] = opClass(op)
			v := bv(clause, entry, in, op+": "+detail, sig)
			v.Witness = wit
			w.Violate(v)
		}
		// rendering must not panic
		var msg string
		if r, s := guard(func() { msg = err.Error() }); r != nil {
			fail("rendering-succeeds", fmt.Sprintf("Error() panicked: %v", r), map[string]string{"site": s})
			return
		}
		if _, ok := err.(runtime.Error); ok {
			fail("not-a-runtime-error", "raw Go runtime error returned: "+trunc(msg, 100), map[string]string{"type": fmt.Sprintf("%T", err)})
			return
		}
		code := -1
		var ke kitErr
		switch e := err.(type) {
		case kitErr:
			ke = e
			code = e.ErrCode()
		case *errs.Err:
			code = int(e.Code())
		case errs.Err:
			code = int(e.Code())
		default:
			fail("has-code", fmt.Sprintf("error of type %T carries no numeric code: %s", err, trunc(msg, 100)), map[string]string{"type": fmt.Sprintf("%T", err)})
			return
		}
		w.Class(fmt.Sprintf("code:%d", code))
		if code == int(errs.ErrGeneric) {
			// code 0 is what a foreign error (a library's error, a string panic) is
			// wrapped in: it renders as "ERROR: <text>" without any code
			f := strings.Fields(msg)
			if len(f) > 4 {
				f = f[:4]
			}
			fail("has-code", "generic code 0 (rendered without a code): "+trunc(msg, 120), map[string]string{"type": "generic", "what": strings.Join(f, " ")})
			return
		}
		if code == int(errs.ErrRuntimeFailure) {
			fail("not-internal-failure", "internal-failure code 1 (Runtime Failure): "+trunc(msg, 100), nil)
			return
		}
		if code == int(errs.ErrGeneric) && (strings.Contains(msg, "runtime error") || strings.Contains(msg, "index out of range") || strings.Contains(msg, "nil pointer")) {
			fail("not-a-runtime-error", "generic error wrapping a Go runtime error: "+trunc(msg, 100), nil)
			return
		}
		if strings.TrimSpace(msg) == "" || (ke != nil && strings.TrimSpace(ke.Message()) == "") {
			fail("readable-message", "empty message", map[string]string{"code": fmt.Sprint(code)})
			return
		}
		// (a message quotes the user's text: what the user wrote is not a dump)
		if m := findDump(msg); m != "" && !strings.Contains(string(in), m) && !strings.Contains(string(text), m) {
			fail("no-internal-dump", fmt.Sprintf("message contains %q: %s", m, trunc(msg, 140)), map[string]string{"code": fmt.Sprint(code)})
			return
		}
		if ke == nil || !strings.Contains(msg, "\n\tin line ") {
			return // no position carried
		}
		// the text the position refers to: the file the error names. Several texts may
		// be filed under one name (type bodies cut out of one source file, keys
		// "name", "name#2", ...): the position must fit one of them.
		type cand struct {
			ref     []byte
			refName string
		}
		cands := []cand{{text, "root"}}
		if t, ok := texts[ke.Filename()]; ok {
			rn := "type"
			if ke.Filename() == "root" {
				rn = "root"
			}
			cands = []cand{{t, rn}}
			for n := 2; ; n++ {
				t2, ok := texts[fmt.Sprintf("%s#%d", ke.Filename(), n)]
				if !ok {
					break
				}
				cands = append(cands, cand{t2, rn})
			}
		}
		judge := func(ref []byte, refName string) (string, string, map[string]string) {
			idx := int(ke.Index())
			if idx >= len(ref) && len(ref) > 0 {
				return "position-inside-text", fmt.Sprintf("index %d outside the %s text of length %d (code %d)", idx, refName, len(ref), code), map[string]string{"code": fmt.Sprint(code), "ref": refName}
			}
			if len(ref) == 0 {
				return "", "", nil
			}
			line, col, lineText, ok := refLineCol(ref, idx)
			if !ok {
				return "", "", nil
			}
			if int(ke.Line()) != line || int(ke.Column()) != col {
				return "line-column", fmt.Sprintf("Line/Column = %d/%d, byte %d of the %s text is at %d/%d (code %d)", ke.Line(), ke.Column(), idx, refName, line, col, code),
					map[string]string{"code": fmt.Sprint(code), "ref": refName, "conv": newlineConvention(ref), "zero": fmt.Sprint(ke.Line() == 0)}
			}
			quoted := strings.TrimLeft(lineText, " \t")
			if len(lineText) > 200 {
				quoted = quoted[:min(len(quoted), 100)]
			}
			if !strings.Contains(msg, quoted) {
				return "quotes-line", fmt.Sprintf("rendering does not quote line %d %q: %s", line, trunc(quoted, 60), trunc(msg, 200)), map[string]string{"code": fmt.Sprint(code), "ref": refName}
			}
			return "", "", nil
		}
		var firstClause, firstDetail string
		var firstSig map[string]string
		for _, c := range cands {
			cl, d, sg := judge(c.ref, c.refName)
			if cl == "" {
				return
			}
			if firstClause == "" {
				firstClause, firstDetail, firstSig = cl, d, sg
			}
		}
		fail(firstClause, firstDetail, firstSig)
	}
}

func min(a, b int) int {
	if a < b {
		return a
	}
	return b
}
