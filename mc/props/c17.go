package props

import (
	stdjson "encoding/json"
	"fmt"
	"strings"

	schema "github.com/jsightapi/jsight-schema-core"
	"github.com/jsightapi/jsight-schema-core/errs"
	"github.com/jsightapi/jsight-schema-core/notations/jschema"
	"github.com/jsightapi/jsight-schema-core/rules/enum"

	"verifmc/core"
	"verifmc/ref"
	"verifmc/seq"
	"verifmc/state"
)

// C17 — enum rule files mean the same as the inline enum they stand for.

var c17Tokens = toks(`[`, `]`, `,`, `"a"`, `"\u0061"`, `"1"`, `1`, `1.0`, `-0`, `true`, `null`, ` `, "\n", `e`, `.`, `"`, `-`)

var c17Scalars = []string{`1`, `1.0`, `1.5`, `-0`, `0`, `"1"`, `"1.5"`, `"a"`, `"\u0061"`, `"a.b"`, `"A"`, `""`, `"true"`, `true`, `false`, `null`, `"null"`}

func c17N(tier string) int {
	if tier == "thorough" {
		return 6
	}
	return 5
}

type enumItem struct {
	lit  string // literal text
	kind byte   // 's' 'n' 't' 'f' 'z'
	key  string // identity: decoded string, or kind+literal
}

// refEnumParse: the reference reading of a comment-free enum rule text.
func refEnumParse(text []byte) (items []enumItem, ok bool) {
	if !stdjson.Valid(text) {
		return nil, false
	}
	v, err := ref.DecodeOrdered(text)
	if err != nil || v.Kind != 'a' {
		return nil, false
	}
	seen := map[string]bool{}
	for _, it := range v.Items {
		e := enumItem{kind: it.Kind}
		switch it.Kind {
		case 'o', 'a':
			return nil, false
		case 's':
			e.key = "s:" + it.Str
		case 'n':
			if strings.ContainsAny(it.Str, "eE") {
				return nil, false
			}
			e.lit = it.Str
			e.key = "n:" + it.Str
		default:
			e.key = string(it.Kind)
		}
		if seen[e.key] {
			return nil, false
		}
		seen[e.key] = true
		items = append(items, e)
	}
	return items, true
}

func kindOfSchemaType(t schema.SchemaType) byte {
	switch t.ToTokenType() {
	case "string":
		return 's'
	case "number":
		return 'n'
	case "boolean":
		return 'b'
	case "null":
		return 'z'
	}
	return '?'
}

// c17HasAnnotationSyntax: a '/', '#' or '*' outside of a string literal ('\/' inside a
// string is an ordinary JSON escape).
func c17HasAnnotationSyntax(in []byte) bool {
	inStr, esc := false, false
	for _, c := range in {
		switch {
		case esc:
			esc = false
		case inStr && c == '\\':
			esc = true
		case c == '"':
			inStr = !inStr
		case !inStr && (c == '/' || c == '#' || c == '*'):
			return true
		}
	}
	return false
}

func c17Accept(w *core.W, in []byte, entry string) {
	w.S.Evaluations++
	w.S.Traces++
	w.S.Transitions += int64(len(in)) + 1
	if c17HasAnnotationSyntax(in) {
		return // annotation syntax: acceptance is judged by the layout family only
	}
	items, want := refEnumParse(in)
	e := enum.New("e", in)
	var err error
	if rec, site := guard(func() { err = e.Check() }); rec != nil {
		w.Violate(bv("no-panic", entry, in, fmt.Sprintf("Check panicked: %v", rec), map[string]string{"site": site}))
		return
	}
	acc := err == nil
	if acc != want {
		why := "other"
		if acc {
			if stdjson.Valid(in) {
				if v, e2 := ref.DecodeOrdered(in); e2 == nil && v.Kind == 'a' {
					why = "duplicates-or-exponent"
					for _, it := range v.Items {
						if it.Kind == 'n' && strings.ContainsAny(it.Str, "eE") {
							why = "exponent"
						}
					}
				}
			} else {
				why = "not-json"
			}
		}
		w.Violate(bv("accept-iff-list-of-distinct-scalars", entry, in, fmt.Sprintf("accepted=%v, reference says %v (%s)", acc, want, errStr(err)), map[string]string{"dir": fmt.Sprintf("accepted=%v", acc), "why": why}))
		return
	}
	if !acc {
		w.Class("reject")
		return
	}
	w.Class("accept")
	w.S.Nontrivial++
	w.Sample(string(in))
	var vals []enum.Value
	if rec, site := guard(func() { vals, err = e.Values() }); rec != nil || err != nil {
		w.Violate(bv("values", entry, in, fmt.Sprintf("Values() failed: %v %v", rec, err), map[string]string{"site": site}))
		return
	}
	var got []enum.Value
	for _, v := range vals {
		if v.Type != schema.SchemaTypeComment {
			got = append(got, v)
		}
	}
	if len(got) != len(items) {
		w.Violate(bv("values", entry, in, fmt.Sprintf("Values() lists %d scalars, the text has %d", len(got), len(items)), nil))
		return
	}
	for i, it := range items {
		g := got[i]
		k := kindOfSchemaType(g.Type)
		wantKind := it.kind
		if wantKind == 't' || wantKind == 'f' {
			wantKind = 'b'
		}
		okv := k == wantKind
		if okv {
			switch it.kind {
			case 's':
				s, ok := ref.DecodeString(g.Value.Data())
				okv = ok && "s:"+s == it.key
			case 'n':
				// Exponents are refused, so a number is a float exactly when it is
				// written with a fraction (the kind the schema loader gives the
				// same literal inline).
				wantT := schema.SchemaTypeInteger
				if strings.Contains(it.lit, ".") {
					wantT = schema.SchemaTypeFloat
				}
				okv = g.Value.String() == it.lit && g.Type == wantT
			case 't':
				okv = g.Value.String() == "true"
			case 'f':
				okv = g.Value.String() == "false"
			case 'z':
				okv = g.Value.String() == "null"
			}
		}
		if !okv {
			w.Violate(bv("values", entry, in, fmt.Sprintf("Values()[%d] = %q of type %q, the text has %s", i, g.Value.String(), g.Type, it.key), map[string]string{"kind": string(it.kind)}))
			return
		}
	}
}

// ---- meaning: enum: @e  ==  enum: [list]

var c17Spellings = []string{`9223372036854775808`, `18446744073709551616`, `"a\/b"`, `"/"`, `0`, `-0`, `0.0`, `-0.0`, `1`, `1.0`, `1.00`, `10`, `10.0`, `2.5`, `2.50`, `-1.0`, `"1.0"`, `"1"`, `"\u0061\u0062"`, `"ab"`, `"\ud83d\ude00"`, `"x\u0031\u002e5"`}

var c17Layouts = []string{"compact", "spaced", "lines", "line-notes", "block-notes", "empty-annotations", "bare-line-notes"}

func c17Render(list []string, layout string) string {
	switch layout {
	case "compact":
		return "[" + strings.Join(list, ",") + "]"
	case "spaced":
		return " [ " + strings.Join(list, " , ") + " ] "
	case "lines":
		return "[\n\t" + strings.Join(list, ",\n\t") + "\n]"
	case "line-notes":
		var b strings.Builder
		b.WriteString("[\n\t// first group\n")
		for i, it := range list {
			b.WriteString("\t" + it)
			if i != len(list)-1 {
				b.WriteString(",")
			}
			fmt.Fprintf(&b, " // note %d\n", i)
		}
		b.WriteString("]")
		return b.String()
	case "bare-line-notes": // inline annotations without any text
		var b strings.Builder
		b.WriteString("[ //\n")
		for i, it := range list {
			b.WriteString("\t" + it)
			if i != len(list)-1 {
				b.WriteString(",")
			}
			if i%2 == 0 {
				b.WriteString(" //\n")
			} else {
				b.WriteString(" // \t\n")
			}
		}
		b.WriteString("]")
		return b.String()
	case "empty-annotations":
		var b strings.Builder
		b.WriteString("[ /**/\n")
		for i, it := range list {
			b.WriteString("\t" + it)
			if i != len(list)-1 {
				b.WriteString(",")
			}
			switch i % 3 {
			case 0:
				b.WriteString(" /**/\n")
			case 1:
				b.WriteString(" /* */\n")
			default:
				b.WriteString(" /*\n\t*/\n")
			}
		}
		b.WriteString("] //")
		return b.String()
	case "block-notes":
		var b strings.Builder
		b.WriteString("[\n\t/* first\n\t   group */\n")
		for i, it := range list {
			b.WriteString("\t" + it)
			if i != len(list)-1 {
				b.WriteString(",")
			}
			fmt.Fprintf(&b, " /* note\n\t   %d */\n", i)
		}
		b.WriteString("]")
		return b.String()
	}
	return ""
}

type c17Wit struct {
	List   []string `json:"list"`
	Layout string   `json:"layout"`
	V      string   `json:"v"`
}

func errCode(err error) int {
	type coder interface{ ErrCode() int }
	if err == nil {
		return 0
	}
	if c, ok := err.(coder); ok {
		return c.ErrCode()
	}
	switch e := err.(type) {
	case *errs.Err:
		return int(e.Code())
	case errs.Err:
		return int(e.Code())
	}
	return -1
}

func c17Meaning(w *core.W, list []string, layout, v string) {
	w.S.Evaluations++
	w.S.Traces++
	w.S.Transitions += 2
	ruleText := c17Render(list, layout)
	wit, _ := stdjson.Marshal(c17Wit{list, layout, v})
	in := fmt.Sprintf("%s // {enum: @e} with @e=%q  vs  %s // {enum: [%s]}", v, ruleText, v, strings.Join(list, ", "))
	fail := func(clause, detail string, sig map[string]string) {
		if sig == nil {
			sig = map[string]string{}
		}
		sig["layout"] = layout
		w.Violate(core.Violation{Clause: clause, Entry: "meaning", Input: in, Witness: wit, Detail: detail, Sig: sig})
	}
	var errA, errB, errC error
	var exA, exB, exC []byte
	hasC := false
	reuse := ""
	var exErrA, exErrB error
	rec, site := guard(func() {
		a := jschema.New("a", v+" // {enum: @e}")
		rule := enum.New("e", ruleText)
		errA = a.AddRule("@e", rule)
		if errA == nil {
			errA = a.Check()
			exA, exErrA = a.Example()
			// the same rule object serves a second schema, and is asked for its values
			// before and after: nothing may depend on how often it was used
			// (for two of the example values)
			v1, _ := rule.Values()
			a2 := jschema.New("a2", v+" // {enum: @e}")
			if v != c17Scalars[0] && v != c17Scalars[len(c17Scalars)-1] {
				// no reuse check for this value
			} else if e2 := a2.AddRule("@e", rule); e2 != nil {
				reuse = "AddRule of the used rule: " + errStr(e2)
			} else {
				err2 := a2.Check()
				ex2, _ := a2.Example()
				v2, _ := rule.Values()
				switch {
				case (err2 == nil) != (errA == nil) || string(ex2) != string(exA):
					reuse = fmt.Sprintf("first schema: %s / %q; second schema with the same rule object: %s / %q", errStr(errA), exA, errStr(err2), ex2)
				case fmt.Sprint(v1) != fmt.Sprint(v2):
					reuse = fmt.Sprintf("Values() after one use %v, after two uses %v", v1, v2)
				}
			}
		}
		b := jschema.New("b", v+" // {enum: ["+strings.Join(list, ", ")+"]}")
		errB = b.Check()
		exB, exErrB = b.Example()
		if layout == "line-notes" || layout == "bare-line-notes" {
			// the same list written inline with the same comments, in a /* */ annotation
			c := jschema.New("c", v+" /* {enum: "+strings.ReplaceAll(ruleText, "\n", "\n\t")+"} */")
			errC = c.Check()
			exC, _ = c.Example()
			hasC = true
		}
	})
	if rec == nil && reuse != "" {
		fail("rule-object-reusable", reuse, nil)
		return
	}
	if rec == nil && hasC && ((errC == nil) != (errB == nil) || (errB == nil && string(exC) != string(exB))) {
		fail("inline-comments-change-nothing", fmt.Sprintf("inline list without comments: %s / %q; with the comments of this layout: %s / %q", errStr(errB), exB, errStr(errC), exC), map[string]string{"code": fmt.Sprint(errCode(errC))})
		return
	}
	if rec != nil {
		fail("no-panic", fmt.Sprintf("panic: %v", rec), map[string]string{"site": site})
		return
	}
	// the reference verdict (both must agree with it as well: C01 covers the inline side)
	if (errA == nil) != (errB == nil) {
		fail("same-verdict", fmt.Sprintf("with rule file: %s; inline: %s", errStr(errA), errStr(errB)), map[string]string{"rule_ok": fmt.Sprint(errA == nil), "inline_code": fmt.Sprint(errCode(errB)), "rule_code": fmt.Sprint(errCode(errA))})
		return
	}
	if errA == nil {
		w.S.Nontrivial++
		w.Class("both-accept")
		if exErrA != nil || exErrB != nil || string(exA) != string(exB) {
			fail("same-example", fmt.Sprintf("Example with rule file = %q (%v), inline = %q (%v)", exA, exErrA, exB, exErrB), nil)
		}
	} else {
		w.Class(fmt.Sprintf("both-reject:%d/%d", errCode(errA), errCode(errB)))
	}
}

func init() {
	Register(&Prop{
		ID:        "C17",
		Technique: "bounded exhaustive enumeration of enum-rule texts + explicit-state search of the enum scanner (acceptance vs encoding/json-based reference), and exhaustive lists x layouts x example values for the rule-file/inline differential",
		Rule:      "acceptance: every string of <= N tokens over a 17-token comment-free alphabet and every reachable enum-scanner state x byte class; meaning: every list of <=3 entries over 17 scalars x 7 layouts (incl. annotations without text) x 17 example values, the commented layouts also written inline, `v // {enum: @e}` vs `v // {enum: [list]}`; non-trivial = accepted rule texts / project pairs that both accept",
		Bounds: func(tier string) map[string]any {
			return map[string]any{"max_tokens": c17N(tier), "scalars": len(c17Scalars), "max_list": 3, "layouts": c17Layouts}
		},
		Run: c17Run,
		Replay: func(w *core.W, v *core.Violation) {
			if v.Entry == "meaning" {
				var wit c17Wit
				if stdjson.Unmarshal(v.Witness, &wit) == nil {
					c17Meaning(w, wit.List, wit.Layout, wit.V)
				}
				return
			}
			c17Accept(w, inputBytes(v), v.Entry)
		},
		Assumptions: []string{
			"the acceptance clause is judged on comment-free texts (annotation syntax is exercised through the five generated layouts, which must be accepted)",
			"encoding/json decides 'bracketed comma-separated list of JSON scalars'; exponent numbers are excluded by the statement",
		},
	})
}

// c17AnnotatedInvalid: an annotation is blank space to the list: a text that is no list
// of scalars without it (trailing comma, missing comma, missing bracket ...) is none with an
// annotation put between any two of its tokens.
func c17AnnotatedInvalid(w *core.W) {
	invalid := []string{`[1,]`, `[,1]`, `[1,,2]`, `[1 2]`, `[1`, `[`, `]`, `[1,]]`, `["a",]`, `[1,2,]`, `[true,]`, `[null,,]`}
	anns := []string{" // c\n", " /* c */ ", " // c\n // d\n", "/**/", " //\n"}
	for _, inv := range invalid {
		inStr := false
		for i := 1; i <= len(inv); i++ {
			if inv[i-1] == '"' {
				inStr = !inStr
			}
			if inStr {
				continue
			}
			for _, a := range anns {
				text := []byte(inv[:i] + a + inv[i:])
				w.S.Evaluations++
				w.S.Traces++
				w.S.Nontrivial++
				var err error
				if rec, site := guard(func() { err = enum.New("e", text).Check() }); rec != nil {
					w.Violate(bv("no-panic", "annotated-invalid", text, fmt.Sprintf("Check panicked: %v", rec), map[string]string{"site": site}))
					continue
				}
				if err == nil {
					w.Violate(bv("accept-iff-list-of-distinct-scalars", "annotated-invalid", text, fmt.Sprintf("accepted, although %q is no list of scalars and an annotation is only blank space", inv), map[string]string{"dir": "accepted=true", "why": "annotation-hides-malformed-list"}))
				}
			}
		}
	}
}

func c17Run(w *core.W) {
	if w.Shard == 0 {
		c17AnnotatedInvalid(w)
	}
	e := &seq.Enum{Tokens: c17Tokens, N: c17N(w.Tier), W: w}
	e.Run(func(s []byte, ntok int, own bool) bool {
		if own {
			c17Accept(w, s, "seq")
		}
		return false
	})
	w.S.States += e.Nodes
	// The abstract state includes the pending literal text, so the state count grows
	// by an order of magnitude per level (1.6 M states at depth 6; depth 7 does not fit
	// in memory): both tiers search to depth 6, the thorough tier adds a token instead.
	depth := 6
	st := &state.Search{W: w, Name: "enumscanner", Symbols: enumSymbols, MaxDepth: depth, MaxLen: 64,
		Key:   func(p []byte) (string, int, bool) { return enum.VerifKeyAfter(p, false) },
		Check: func(in []byte) { c17Accept(w, in, "state") }, Complete: ref.JSONCompletion}
	st.Run()
	// number spellings: every list of <= 3 entries over the spellings of a few
	// numbers (trailing zeros, zero fraction, sign of zero, the same digits as a string)
	if w.Shard == 0 {
		var sp func(p []string)
		sp = func(p []string) {
			c17Accept(w, []byte("["+strings.Join(p, ",")+"]"), "spellings")
			if len(p) == 3 {
				return
			}
			for _, s := range c17Spellings {
				sp(append(p, s))
			}
		}
		sp(nil)
	}
	// tails: a valid list followed by annotations - whole ones, or text that breaks off
	// in the middle of one
	if w.Shard == 0 {
		for _, list := range []string{`[1, 2]`, "[\n\t\"a\"\n]", `[]`} {
			for tail, ok := range map[string]bool{"": true, " //": true, " // c": true, " /* a */": true, " /* a */ // b": true, "\n/* a\n b */\n": true, " /**/": true,
				" /": false, "/": false, " /*": false, "/**": false, " /* t": false, " /* t *": false, " /* a */ /* b": false, " /* a */ /": false, " // c\n/": false} {
				in := []byte(list + tail)
				w.S.Evaluations++
				var err error
				rec, site := guard(func() { err = enum.New("e", in).Check() })
				want := ok && list != `[]`
				if list == `[]` {
					continue // an empty list is refused for its own reasons
				}
				if rec != nil {
					w.Violate(bv("no-panic", "tails", in, fmt.Sprintf("Check panicked: %v", rec), map[string]string{"site": site}))
				} else if (err == nil) != want {
					w.Violate(bv("accept-iff-list-of-distinct-scalars", "tails", in, fmt.Sprintf("accepted=%v, a list followed by %q should be accepted=%v (%s)", err == nil, tail, want, errStr(err)), map[string]string{"dir": fmt.Sprintf("accepted=%v", err == nil), "why": "annotation-tail"}))
				}
			}
		}
	}
	// meaning family
	var lists [][]string
	var gen func(p []string)
	gen = func(p []string) {
		lists = append(lists, append([]string{}, p...))
		if len(p) == 3 {
			return
		}
		for _, s := range c17Scalars {
			gen(append(p, s))
		}
	}
	gen(nil)
	var i int64
	for _, l := range lists {
		for _, lay := range c17Layouts {
			i++
			if !w.Mine(i) {
				continue
			}
			if w.OverBudget() {
				return
			}
			for _, v := range c17Scalars {
				c17Meaning(w, l, lay, v)
			}
		}
	}
	if w.Shard == 0 {
		w.Count("meaning.lists", int64(len(lists)))
	}
}
