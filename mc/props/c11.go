package props

import (
	stdjson "encoding/json"
	"fmt"
	"os/exec"
	"path/filepath"
	"strings"

	"github.com/jsightapi/jsight-schema-core/notations/jschema"
	"github.com/jsightapi/jsight-schema-core/notations/jschema/ischema"
	jdoc "github.com/jsightapi/jsight-schema-core/formats/json"
	jregex "github.com/jsightapi/jsight-schema-core/notations/regex"
	"github.com/jsightapi/jsight-schema-core/openapi"
	"github.com/jsightapi/jsight-schema-core/rules/enum"
	"github.com/jsightapi/jsight-schema-core/verifshim/vsync"

	"verifmc/core"
	"verifmc/explore"
	"verifmc/sched"
)

// C11 — concurrent use gives the sequential results.

// C11Harness: fresh shared state + thread bodies; each body returns its result.
type C11Harness struct {
	Name    string
	Setup   func() any
	Threads []func(shared any) string
	Pool    bool // explore pool answers too
	// Bound (when > 0) caps the preemption bound for this harness: long bodies
	// (more than ~500 scheduling points) are explored with fewer preemptions.
	Bound int
}

var c11Own = []*project{
	{Root: "{\n\t\"a\": [\n\t\t1,\n\t\t2\n\t],\n\t\"b\": {\n\t\t\"c\": \"x\"\n\t}\n}"},
	{Root: "[\n\t{\n\t\t\"k\": 1 // {min: 0}\n\t},\n\t\"s\"\n]"},
	{Root: "{\n\t\"t\": @t,\n\t\"n\": 1.5 // {precision: 1}\n}", Types: map[string]string{"@t": "{\n\t\"in\": [\n\t\ttrue\n\t]\n}"}},
	{Root: "{ // {additionalProperties: \"array\"}\n\t\"foo\": \"bar\",\n\t@k: 1\n}", Types: map[string]string{"@k": `"abc" // {regex: "^[a-z]+$"}`}},
}

func c11All(p *project) string {
	var b strings.Builder
	s, err := buildProject(p)
	if err != nil {
		return "build:" + errSnap(err)
	}
	b.WriteString("check=" + errSnap(s.Check()))
	ex, e := s.Example()
	b.WriteString(" example=" + string(ex) + "|" + errSnap(e))
	if s.Check() == nil {
		o, e2 := openapi.NewSchemaObject(s).MarshalJSON()
		b.WriteString(" openapi=" + string(o) + "|" + errSnap(e2))
	}
	// the caller still holds ex: it must not have changed
	if ex2, _ := s.Example(); string(ex2) != string(ex) {
		b.WriteString(" RETAINED-EXAMPLE-CHANGED:" + string(ex))
	}
	return b.String()
}

func C11Harnesses(threads int) []*C11Harness {
	var hs []*C11Harness
	// H1a: own objects from scratch: New + Check (loader pool, Once chains)
	h1 := &C11Harness{Name: "H1a-own-new-check", Setup: func() any { return nil }, Pool: false}
	small := []*project{{Root: "{\n\t\"a\": 1 // {min: 0}\n}"}, {Root: "[\n\t\"s\"\n]"}, {Root: "{\n\t\"t\": @t\n}", Types: map[string]string{"@t": "1"}}}
	for i := 0; i < threads; i++ {
		p := small[i%len(small)]
		h1.Threads = append(h1.Threads, func(any) string {
			s, err := buildProject(p)
			if err != nil {
				return "build:" + errSnap(err)
			}
			return "check=" + errSnap(s.Check())
		})
	}
	hs = append(hs, h1)
	// H1b: own compiled objects: Example + OpenAPI, colliding in the two buffer pools
	h1b := &C11Harness{Name: "H1b-own-example-openapi", Pool: true, Setup: func() any {
		var ss []*jschema.JSchema
		for i := 0; i < threads; i++ {
			s, _ := buildProject(c11Own[(len(c11Own)-1-i%len(c11Own))])
			s.Check()
			ss = append(ss, s)
		}
		return ss
	}}
	for i := 0; i < threads; i++ {
		i := i
		h1b.Threads = append(h1b.Threads, func(x any) string {
			s := x.([]*jschema.JSchema)[i]
			var b strings.Builder
			ex, e := s.Example()
			b.WriteString("example=" + string(ex) + "|" + errSnap(e))
			o, e2 := openapi.NewSchemaObject(s).MarshalJSON()
			b.WriteString(" openapi=" + string(o) + "|" + errSnap(e2))
			if ex2, _ := s.Example(); string(ex2) != string(ex) {
				b.WriteString(" RETAINED-EXAMPLE-CHANGED:" + string(ex))
			}
			return b.String()
		})
	}
	hs = append(hs, h1b)
	// H7: own objects whose example (about 1200 bytes) and OpenAPI text outgrow the pooled
	// buffers' initial capacity: whatever a pool does with a grown buffer (park it in a
	// slot, replace it) is met by the other goroutine's next Get. One result is built
	// before the threads start, so that a grown buffer is already around.
	mkLarge := func(tag string) *project {
		var b strings.Builder
		b.WriteString("{")
		// (the nested object takes a buffer of its own while the outer one is held: the
		// only scheduling point inside the window between a Get and its Put)
		fmt.Fprintf(&b, "\n\t\"%s0\": \"%s\",\n\t\"in\": {\n\t\t\"v\": 1\n\t},\n\t\"%s1\": \"%s\"", tag, strings.Repeat(tag, 600), tag, strings.Repeat(tag, 600))
		b.WriteString("\n}")
		return &project{Root: b.String()}
	}
	h7 := &C11Harness{Name: "H7-own-large-results", Pool: true, Setup: func() any {
		var ss []*jschema.JSchema
		for i := 0; i < threads; i++ {
			s, _ := buildProject(mkLarge(string(rune('a' + i))))
			s.Check()
			ss = append(ss, s)
		}
		warm, _ := buildProject(mkLarge("w"))
		warm.Example()
		openapi.NewSchemaObject(warm).MarshalJSON()
		return ss
	}}
	for i := 0; i < threads; i++ {
		i := i
		h7.Threads = append(h7.Threads, func(x any) string {
			s := x.([]*jschema.JSchema)[i]
			ex, e := s.Example()
			o, e2 := openapi.NewSchemaObject(s).MarshalJSON()
			return "example=" + string(ex) + "|" + errSnap(e) + " openapi=" + string(o) + "|" + errSnap(e2)
		})
	}
	hs = append(hs, h7)
	// H2: one shared schema with types
	shared := func() any {
		s, _ := buildProject(c10Projects["S1"])
		return s
	}
	h2 := &C11Harness{Name: "H2-shared-schema", Setup: shared, Pool: true, Threads: []func(any) string{
		func(x any) string { return "check=" + errSnap(x.(*jschema.JSchema).Check()) },
		func(x any) string {
			b, e := x.(*jschema.JSchema).Example()
			return "example=" + string(b) + "|" + errSnap(e)
		},
	}}
	if threads >= 3 {
		h2.Threads = append(h2.Threads, func(x any) string {
			s := x.(*jschema.JSchema)
			a, e := s.GetAST()
			j, _ := stdjson.Marshal(a)
			l, e2 := s.Len()
			u, e3 := s.UsedUserTypes()
			return fmt.Sprintf("ast=%s|%s len=%d|%s used=%v|%s", j, errSnap(e), l, errSnap(e2), u, errSnap(e3))
		})
	}
	hs = append(hs, h2)
	hs = append(hs, &C11Harness{Name: "H2b-shared-schema-openapi", Setup: shared, Threads: []func(any) string{
		func(x any) string {
			s := x.(*jschema.JSchema)
			if s.Check() != nil {
				return "rejected"
			}
			b, e := openapi.NewSchemaObject(s).MarshalJSON()
			return "openapi=" + string(b) + "|" + errSnap(e)
		},
		func(x any) string {
			u, e := x.(*jschema.JSchema).UsedUserTypes()
			return fmt.Sprintf("used=%v|%s", u, errSnap(e))
		},
	}})
	// H5: own root schemas that share one registered type object (a catalogue of types
	// used by many request / response schemas): the type is loaded and compiled once,
	// on behalf of whichever root reaches it first
	h5 := &C11Harness{Name: "H5-own-roots-shared-type", Bound: 1, Setup: func() any {
		t := jschema.New("@t", "{\n\t\"k\": 1, // {or: [{type: \"integer\"}, {type: \"string\"}]}\n\t\"m\": @u\n}")
		u := jschema.New("@u", `"s" // {minLength: 1}`)
		return []*jschema.JSchema{t, u}
	}}
	for i := 0; i < threads; i++ {
		root := []string{"{\n\t\"x\": @t\n}", "[\n\t@t,\n\t@u\n]", "@t"}[i%3]
		h5.Threads = append(h5.Threads, func(x any) string {
			tt := x.([]*jschema.JSchema)
			r := jschema.New("root", root)
			if e := r.AddType("@t", tt[0]); e != nil {
				return "addtype:" + errSnap(e)
			}
			if e := r.AddType("@u", tt[1]); e != nil {
				return "addtype:" + errSnap(e)
			}
			ex, e := r.Example()
			return "check=" + errSnap(r.Check()) + " example=" + string(ex) + "|" + errSnap(e)
		})
	}
	hs = append(hs, h5)
	// H6: own regex objects, own enum rules and own JSON documents over the SAME texts
	// (anything keyed by the text instead of the object would be shared between them)
	h6 := &C11Harness{Name: "H6-own-objects-same-text", Setup: func() any { return nil }}
	for i := 0; i < threads; i++ {
		h6.Threads = append(h6.Threads, func(any) string {
			r := jregex.New("r", c10Regex)
			ex, e := r.Example()
			en := enum.New("e", c10Enum)
			vals, e2 := en.Values()
			d := jdoc.New("d", c10Doc)
			l, e3 := d.Len()
			return fmt.Sprintf("regex=%s|%s enum=%d|%s doc=%d|%s|%s", ex, errSnap(e), len(vals), errSnap(e2), l, errSnap(e3), errSnap(d.Check()))
		})
	}
	hs = append(hs, h6)
	// H3: shared enum rule / shared regex
	hs = append(hs, &C11Harness{Name: "H3-shared-enum", Setup: func() any { return enum.New("e", c10Enum) }, Threads: []func(any) string{
		func(x any) string { return "check=" + errSnap(x.(*enum.Enum).Check()) },
		func(x any) string {
			v, e := x.(*enum.Enum).Values()
			var b strings.Builder
			for _, it := range v {
				fmt.Fprintf(&b, "%s:%s:%q;", it.Type, it.Value.String(), it.Comment)
			}
			return "values=" + b.String() + "|" + errSnap(e)
		},
		func(x any) string {
			a, e := x.(*enum.Enum).GetAST()
			j, _ := stdjson.Marshal(a)
			return "ast=" + string(j) + "|" + errSnap(e)
		},
	}})
	hs = append(hs, &C11Harness{Name: "H3-shared-regex", Setup: func() any { return jregex.New("r", c10Regex) }, Threads: []func(any) string{
		func(x any) string {
			b, e := x.(*jregex.RSchema).Example()
			return "example=" + string(b) + "|" + errSnap(e)
		},
		func(x any) string { p, e := x.(*jregex.RSchema).Pattern(); return "pattern=" + p + "|" + errSnap(e) },
		func(x any) string {
			b, e := x.(*jregex.RSchema).Example()
			return "example=" + string(b) + "|" + errSnap(e)
		},
	}})
	// H4: lazily built global + containers
	hs = append(hs, &C11Harness{Name: "H4-virtual-node", Setup: func() any { return nil }, Threads: []func(any) string{
		func(any) string {
			return fmt.Sprintf("%T %v", ischema.VirtualNodeForAny(), ischema.VirtualNodeForAny() != nil)
		},
		func(any) string {
			return fmt.Sprintf("%T %v", ischema.VirtualNodeForAny(), ischema.VirtualNodeForAny() != nil)
		},
	}})
	hs = append(hs, &C11Harness{Name: "H4-ensure-additional-properties", Setup: func() any {
		s := jschema.New("o", "{\n\t\"k\": 1\n}")
		s.Check()
		return s.Inner.RootNode().(*ischema.ObjectNode)
	}, Threads: []func(any) string{
		func(x any) string {
			x.(*ischema.ObjectNode).EnsureAdditionalProperties()
			return fmt.Sprint(x.(*ischema.ObjectNode).NumberOfConstraints())
		},
		func(x any) string {
			x.(*ischema.ObjectNode).EnsureAdditionalProperties()
			return fmt.Sprint(x.(*ischema.ObjectNode).NumberOfConstraints())
		},
	}})
	hs = append(hs, &C11Harness{Name: "H4-string-set", Setup: func() any { return jschema.NewStringSet("a") }, Threads: []func(any) string{
		func(x any) string { s := x.(*jschema.StringSet); s.Add("b"); s.Add("a"); return fmt.Sprint(s.Has("b")) },
		func(x any) string {
			s := x.(*jschema.StringSet)
			s.Add("a")
			return fmt.Sprint(s.Has("a"), s.Len() >= 1)
		},
	}})
	return hs
}

// c11Reference: each thread body alone on fresh shared state.
func c11Reference(h *C11Harness) []string {
	ref := make([]string, len(h.Threads))
	vsync.Scribble = false
	for i, b := range h.Threads {
		vsync.ResetPools()
		ref[i] = b(h.Setup())
	}
	return ref
}

type c11Wit struct {
	Harness string `json:"harness"`
	Threads int    `json:"threads"`
	Choices []int  `json:"choices"`
}

func c11Explore(w *core.W, h *C11Harness, threads, bound int, replay []int) {
	ref := c11Reference(h)
	ex := &explore.Explorer{Bound: bound, Stop: w.OverBudget, Shard: w.Shard, Of: w.Of}
	if replay != nil {
		ex.Bound, ex.Of = 0, 1
	}
	maxPoints := 0
	outcomes := map[string]bool{}
	run := func(ch *explore.Chooser) {
		vsync.ResetPools()
		vsync.Scribble = true
		shared := h.Setup()
		results := make([]string, len(h.Threads))
		var bodies []func()
		for i, b := range h.Threads {
			i, b := i, b
			bodies = append(bodies, func() { results[i] = b(shared) })
		}
		s := sched.Run(ch, h.Pool, bodies)
		w.S.Evaluations++
		w.S.Traces++
		w.S.Transitions += int64(s.Points)
		if s.Points > maxPoints {
			maxPoints = s.Points
		}
		outcomes[strings.Join(results, "\x00")] = true
		fail := func(clause, detail string, sig map[string]string) {
			wit, _ := stdjson.Marshal(c11Wit{h.Name, threads, append([]int{}, ch.Choices...)})
			if sig == nil {
				sig = map[string]string{}
			}
			sig["harness"] = h.Name
			w.Violate(core.Violation{Clause: clause, Entry: h.Name, Input: fmt.Sprintf("%s, %d threads, schedule %v", h.Name, len(h.Threads), compactChoices(ch.Choices)), Witness: wit, Detail: detail, Sig: sig})
		}
		if s.Deadlock != "" {
			fail("no-deadlock", s.Deadlock, nil)
			return
		}
		if p := s.Panics(); len(p) > 0 {
			fail("no-panic", strings.Join(p, "; "), nil)
			return
		}
		for i := range results {
			if results[i] != ref[i] {
				fail("equals-sequential-result", fmt.Sprintf("thread %d: %s; sequential: %s", i, trunc(results[i], 160), trunc(ref[i], 160)), map[string]string{"thread": fmt.Sprint(i)})
				return
			}
		}
	}
	if replay != nil {
		// replay twice: identical observations are required before a failure is believed
		ex.Run = func(ch *explore.Chooser) { run(ch) }
		exr := &explore.Explorer{Bound: 0, Run: run}
		_ = exr
	}
	ex.Run = run
	if replay != nil {
		c := &explore.Chooser{}
		*c = *explore.NewChooser(replay)
		run(c)
		return
	}
	ex.Explore()
	w.S.States += ex.Executions
	w.S.Nontrivial += ex.Executions
	w.Count(h.Name+".executions", ex.Executions)
	if w.Shard == 0 {
		w.Count(h.Name+".points_per_execution", int64(maxPoints))
		w.Count(h.Name+".distinct_outcomes", int64(len(outcomes)))
	}
	if ex.Divergence != "" {
		w.Violate(core.Violation{Clause: "ENGINE-replay-divergence", Entry: h.Name, Input: h.Name, Detail: ex.Divergence})
	}
}

func compactChoices(c []int) string {
	var parts []string
	for i, v := range c {
		if v != 0 {
			parts = append(parts, fmt.Sprintf("%d:%d", i, v))
		}
	}
	return "[" + strings.Join(parts, " ") + "] of " + fmt.Sprint(len(c))
}

func c11Race(w *core.W) {
	racer := filepath.Join(verifDirProps(), core.BuildDirName(), "racer")
	out, err := exec.Command(racer).CombinedOutput()
	text := string(out)
	n := strings.Count(text, "WARNING: DATA RACE")
	w.Count("race_pass.reports", int64(n))
	if n > 0 {
		// the first report, trimmed to the repository frames
		first := text[strings.Index(text, "WARNING: DATA RACE"):]
		if len(first) > 1800 {
			first = first[:1800]
		}
		var frames []string
		for _, l := range strings.Split(first, "\n") {
			if strings.Contains(l, "jsight-schema-core/") && strings.Contains(l, "()") {
				frames = append(frames, strings.TrimSpace(l))
			}
		}
		site := ""
		if len(frames) > 0 {
			site = frames[0]
		}
		w.Violate(core.Violation{Clause: "no-data-race", Entry: "race-pass", Input: "free-running harness under the Go race detector", Detail: fmt.Sprintf("%d race reports; first at %s", n, strings.Join(frames, " <- ")), Sig: map[string]string{"site": site}})
		return
	}
	if err != nil {
		if strings.Contains(text, "MISMATCH") {
			w.Violate(core.Violation{Clause: "equals-sequential-result", Entry: "race-pass", Input: "free-running harness", Detail: trunc(text, 400), Sig: map[string]string{"harness": "free-running"}})
			return
		}
		w.Note("race pass could not run: " + err.Error() + " " + trunc(text, 200))
		w.Violate(core.Violation{Clause: "ENGINE-race-pass", Detail: "race pass failed to run: " + err.Error() + " " + trunc(text, 300)})
		return
	}
	w.Note("race pass: " + strings.TrimSpace(lastLine(text)))
}

func lastLine(s string) string {
	s = strings.TrimSpace(s)
	if i := strings.LastIndex(s, "\n"); i >= 0 {
		return s[i+1:]
	}
	return s
}

func init() {
	Register(&Prop{
		ID:        "C11",
		Inst:      true,
		MaxProcs:  1, // goroutine hand-offs are direct switches with one P
		Technique: "stateless model checking of the real code under a cooperative scheduler: every interleaving of 2-3 goroutines at every sync operation (Mutex/RWMutex/Once/Pool, with points before and after pool operations) up to a preemption bound, combined with sync.Pool answers; plus a separate free-running pass of the same harness bodies under the Go race detector",
		Rule:      "harnesses: H1 own objects (New+Check+Example+OpenAPI on different nested schemas, colliding in the buffer pools and the loader pool), H2 one shared schema with types (Check || Example || GetAST/Len/UsedUserTypes, and OpenAPI || UsedUserTypes), H3 shared enum rule and shared regex, H4 VirtualNodeForAny, EnsureAdditionalProperties, StringSet, H6 own regex / enum / document objects over the same texts, H5 own roots sharing one registered type object (first use of the type contended; one preemption); preemption bound 2, pool answers {most recent, older, New()} as deviations, scribbling pool; oracle: no deadlock, no panic, every thread's result equals its sequential result, a retained example is unchanged; non-trivial = executions",
		Bounds: func(tier string) map[string]any {
			return map[string]any{"threads": map[string]int{"quick": 2, "thorough": 3}[tier], "preemption_bound": map[string]int{"quick": 2, "thorough": 2}[tier], "race_pass": "16 goroutines x 150 iterations, go build -race, real sync"}
		},
		Run: func(w *core.W) {
			threads, bound := 2, 2
			if w.Thorough() {
				threads = 3
			}
			for _, h := range C11Harnesses(threads) {
				b := bound
				if h.Bound > 0 && h.Bound < b {
					b = h.Bound
				}
				c11Explore(w, h, threads, b, nil)
			}
			if w.Shard == 0 {
				c11Race(w)
				w.Sample(map[string]any{"harness": "H1-own-objects", "threads": threads, "schedule": "default + every placement of <=2 preemptions"})
			}
		},
		Replay: func(w *core.W, v *core.Violation) {
			if v.Entry == "race-pass" {
				c11Race(w)
				return
			}
			var wit c11Wit
			if stdjson.Unmarshal(v.Witness, &wit) != nil {
				return
			}
			for _, h := range C11Harnesses(wit.Threads) {
				if h.Name == wit.Harness {
					c11Explore(w, h, wit.Threads, 0, wit.Choices)
				}
			}
		},
		Assumptions: []string{
			"interleavings are exhaustive only at sync operations and under sequential consistency; unsynchronised accesses between two sync operations are decided by the race detector on the interleavings that happen to occur in the free-running pass",
			"harness bodies are straight-line (no polling), so every execution terminates; 'no enabled thread' is a deadlock",
		},
	})
}
