package props

import (
	stdjson "encoding/json"
	"fmt"
	"strings"

	"github.com/jsightapi/jsight-schema-core/errs"

	"verifmc/core"
)

// C05 — references resolve exactly; UsedUserTypes() is exact.

// closed, valid type definitions: @s string, @o object, @p object referring to @s, @q object referring to @p
var c05Defs = map[string]string{
	"@s": `"s"`,
	"@o": "{\n\t\"k\": 1\n}",
	"@p": "{\n\t\"q\": @s\n}",
	"@q": "{\n\t\"r\": @p // {optional: true}\n}",
	// definitions that refer onwards through the other kinds of reference
	"@r": "{} // {additionalProperties: \"@s\"}",
	"@t": `"t" // {type: "@s"}`,
	"@t2": `"u" // {type: "@s"}`,
	"@ku": `@s | @t`,
	"@km": `@s | @t // {type: "mixed"}`,
	"@S": `"upper-case s"`, // differs from @s by the case of a letter only (used in a few explicit sites)
	"@v": "{ // {allOf: \"@o\"}\n\t\"own\": 1\n}",
	"@w": "{\n\t\"w\": @w, // {optional: true}\n\t\"u\": @s | @o\n}",
}
var c05Refs = map[string][]string{"@S": nil, "@s": nil, "@o": nil, "@p": {"@s"}, "@q": {"@p"}, "@r": {"@s"}, "@t": {"@s"}, "@t2": {"@s"}, "@ku": {"@s", "@t"}, "@km": {"@s", "@t"}, "@v": {"@o"}, "@w": {"@w", "@s", "@o"}}
var c05All = []string{"@s", "@o", "@p", "@q", "@r", "@t", "@t2", "@ku", "@km", "@v", "@w"}
var c05Extras = map[string]string{"@z1": `1`, "@z2": "{\n\t\"zz\": \"a\"\n}", "@z3": `1 // {or: [{type: "integer", min: 0}, {type: "boolean"}]}`}

// c05Site: one reference site = a value text (single element, possibly with an
// annotation) and the names it mentions.
type c05Site struct {
	Pos   string   `json:"pos"`
	Text  string   `json:"text"`  // element text without annotation
	Ann   string   `json:"ann"`   // annotation (without the leading //)
	Names []string `json:"names"` // in order of appearance
	Multi bool     `json:"multi"` // the element spans several lines (key shortcut)
}

func c05Sites() []c05Site {
	var out []c05Site
	all := c05All
	objs := []string{"@o", "@p", "@q", "@r", "@v", "@w"}
	for _, x := range all {
		out = append(out, c05Site{Pos: "value-shortcut", Text: x, Names: []string{x}})
		out = append(out, c05Site{Pos: "additionalProperties", Text: "{}", Ann: fmt.Sprintf(`{additionalProperties: %q}`, x), Names: []string{x}})
		for _, y := range all {
			if x != y {
				out = append(out, c05Site{Pos: "or-shortcut", Text: x + " | " + y, Names: []string{x, y}})
			}
		}
	}
	out = append(out, c05Site{Pos: "key-shortcut", Text: "{\n\t@s: 1\n}", Names: []string{"@s"}, Multi: true})
	out = append(out, c05Site{Pos: "key-shortcut-union", Text: "{\n\t@ku: 1\n}", Names: []string{"@ku"}, Multi: true})
	out = append(out, c05Site{Pos: "key-shortcut-union", Text: "{\n\t@km: 1\n}", Names: []string{"@km"}, Multi: true})
	out = append(out, c05Site{Pos: "type-rule", Text: `"v"`, Ann: `{type: "@s"}`, Names: []string{"@s"}})
	out = append(out, c05Site{Pos: "type-rule", Text: `"v"`, Ann: `{type: "@t"}`, Names: []string{"@t"}})
	out = append(out, c05Site{Pos: "or-string-item", Text: `"v"`, Ann: `{or: ["@t", "@o"]}`, Names: []string{"@t", "@o"}})
	out = append(out, c05Site{Pos: "value-shortcut-nullable", Text: "@w", Ann: `{nullable: true}`, Names: []string{"@w"}})
	out = append(out, c05Site{Pos: "or-string-item", Text: `"v"`, Ann: `{or: ["@s", "integer"]}`, Names: []string{"@s"}})
	out = append(out, c05Site{Pos: "or-type-item", Text: `"v"`, Ann: `{or: [{type: "@s"}, {type: "integer"}]}`, Names: []string{"@s"}})
	// two alternatives that lead to the same type (a diamond, not a recursion)
	out = append(out, c05Site{Pos: "or-diamond", Text: `"v"`, Ann: `{or: ["@t", "@t2"]}`, Names: []string{"@t", "@t2"}})
	out = append(out, c05Site{Pos: "or-diamond", Text: `"v"`, Ann: `{or: [{type: "@t2"}, {type: "@s"}]}`, Names: []string{"@t2", "@s"}})
	// a rule-set that carries a second rule is kept as an unnamed type
	out = append(out, c05Site{Pos: "or-type-item+rule", Text: `"v"`, Ann: `{or: [{type: "@s", nullable: true}, {type: "integer"}]}`, Names: []string{"@s"}})
	out = append(out, c05Site{Pos: "or-type-item+rule", Text: `"v"`, Ann: `{or: [{type: "integer", min: 0}, {type: "@t", nullable: true}]}`, Names: []string{"@t"}})
	for _, x := range objs {
		out = append(out, c05Site{Pos: "allOf", Text: "{}", Ann: fmt.Sprintf(`{allOf: %q}`, x), Names: []string{x}})
	}
	// type names are case-sensitive: @S and @s are two types
	out = append(out, c05Site{Pos: "case-sensitive-names", Text: `"v"`, Ann: `{or: ["@S", "@s"]}`, Names: []string{"@S", "@s"}})
	out = append(out, c05Site{Pos: "case-sensitive-names", Text: `"v"`, Ann: `{or: [{type: "@s"}, {type: "@S"}]}`, Names: []string{"@s", "@S"}})
	out = append(out, c05Site{Pos: "case-sensitive-names", Text: `@s | @S`, Names: []string{"@s", "@S"}})
	// additionalProperties inside the rule-set of an `or` item
	out = append(out, c05Site{Pos: "or-item-additionalProperties", Text: "{}", Ann: `{or: [{type: "object", additionalProperties: "@s"}, {type: "string"}]}`, Names: []string{"@s"}})
	out = append(out, c05Site{Pos: "or-item-additionalProperties", Text: "{}", Ann: `{or: [{type: "string"}, {type: "object", additionalProperties: "@o"}]}`, Names: []string{"@o"}})
	// names written with a JSON escape are the same names
	out = append(out, c05Site{Pos: "escaped-name", Text: `"v"`, Ann: `{type: "\u0040s"}`, Names: []string{"@s"}})
	out = append(out, c05Site{Pos: "escaped-name", Text: `"v"`, Ann: `{type: "@\u0074"}`, Names: []string{"@t"}})
	out = append(out, c05Site{Pos: "escaped-name", Text: `"v"`, Ann: `{or: ["\u0040t", "@\u006f"]}`, Names: []string{"@t", "@o"}})
	out = append(out, c05Site{Pos: "escaped-name", Text: `"v"`, Ann: `{or: [{type: "\u0040s"}, {type: "intege\u0072"}]}`, Names: []string{"@s"}})
	out = append(out, c05Site{Pos: "escaped-name", Text: "{}", Ann: `{allOf: "\u0040o"}`, Names: []string{"@o"}})
	out = append(out, c05Site{Pos: "escaped-name", Text: "{}", Ann: `{allOf: ["@\u006f", "\u0040q"]}`, Names: []string{"@o", "@q"}})
	out = append(out, c05Site{Pos: "escaped-name", Text: "{}", Ann: `{additionalProperties: "\u0040s"}`, Names: []string{"@s"}})
	out = append(out, c05Site{Pos: "allOf-list", Text: "{}", Ann: `{allOf: ["@o", "@q"]}`, Names: []string{"@o", "@q"}})
	// an heir whose own property is an heir again, and references below an heir
	out = append(out, c05Site{Pos: "allOf-nested", Text: "{ // {allOf: \"@o\"}\n\t\"in\": {} // {allOf: \"@p\"}\n}", Names: []string{"@o", "@p"}, Multi: true})
	out = append(out, c05Site{Pos: "allOf-nested", Text: "{ // {allOf: \"@v\"}\n\t\"in\": [\n\t\t{} // {allOf: \"@q\"}\n\t]\n}", Names: []string{"@v", "@q"}, Multi: true})
	out = append(out, c05Site{Pos: "below-allOf", Text: "{ // {allOf: \"@o\"}\n\t\"in\": @r,\n\t\"t\": \"x\" // {type: \"@t\"}\n}", Names: []string{"@o", "@r", "@t"}, Multi: true})
	return out
}

func (s c05Site) render(indent, prefix, comma string) string {
	ann := ""
	if s.Ann != "" {
		ann = " // " + s.Ann
	}
	if s.Multi {
		lines := strings.Split(s.Text, "\n")
		for i := range lines {
			if i > 0 {
				lines[i] = indent + lines[i]
			}
		}
		return indent + prefix + strings.Join(lines, "\n") + comma
	}
	return indent + prefix + s.Text + comma + ann
}

type c05Root struct {
	Shape string    `json:"shape"`
	Sites []c05Site `json:"sites"`
}

func (r c05Root) text() string {
	switch r.Shape {
	case "root":
		return r.Sites[0].render("", "", "")
	case "property":
		return "{\n" + r.Sites[0].render("\t", `"a": `, "") + "\n}"
	case "item":
		return "{\n\t\"arr\": [\n" + r.Sites[0].render("\t\t", "", "") + "\n\t]\n}"
	case "property-under-type-like-key":
		// a quoted key that spells a type name is an ordinary key, not a reference
		return "{\n" + r.Sites[0].render("\t", `"@zz": `, "") + "\n}"
	case "nested-under-type-like-key":
		return "{\n\t\"@s\": {\n" + r.Sites[0].render("\t\t", `"in": `, "") + "\n\t}\n}"
	case "item-in-item":
		return "[\n\t[\n" + r.Sites[0].render("\t\t", "", "") + "\n\t]\n]"
	case "two-properties":
		return "{\n" + r.Sites[0].render("\t", `"a": `, ",") + "\n" + r.Sites[1].render("\t", `"b": `, "") + "\n}"
	case "three-properties":
		return "{\n" + r.Sites[0].render("\t", `"a": `, ",") + "\n" + r.Sites[1].render("\t", `"b": `, ",") + "\n" + r.Sites[2].render("\t", `"c": `, "") + "\n}"
	case "property-and-item":
		return "{\n" + r.Sites[0].render("\t", `"a": `, ",") + "\n\t\"arr\": [\n" + r.Sites[1].render("\t\t", "", "") + "\n\t]\n}"
	}
	return ""
}

func (r c05Root) names() []string {
	seen := map[string]bool{}
	var out []string
	for _, s := range r.Sites {
		for _, n := range s.Names {
			if !seen[n] {
				seen[n] = true
				out = append(out, n)
			}
		}
	}
	return out
}

type c05Wit struct {
	Root   c05Root  `json:"root"`
	Reg    []string `json:"registered"`
	Extras []string `json:"extras"`
}

func c05Project(r c05Root, reg []string, extras []string) *project {
	p := &project{Root: r.text(), Types: map[string]string{}}
	for _, n := range reg {
		p.Types[n] = c05Defs[n]
	}
	for _, n := range extras {
		p.Types[n] = c05Extras[n]
	}
	return p
}

func c05Case(w *core.W, r c05Root, reg []string) {
	registered := map[string]bool{}
	for _, n := range reg {
		registered[n] = true
	}
	// reference: names reachable from the root through registered definitions
	missing := map[string]bool{}
	seen := map[string]bool{}
	queue := append([]string{}, r.names()...)
	for len(queue) > 0 {
		n := queue[0]
		queue = queue[1:]
		if seen[n] {
			continue
		}
		seen[n] = true
		if !registered[n] {
			missing[n] = true
			continue
		}
		queue = append(queue, c05Refs[n]...)
	}
	// excluded region: a registered but unreachable type that refers to a missing type
	for _, n := range reg {
		if !seen[n] {
			for _, d := range c05Refs[n] {
				if !registered[d] {
					w.Class("excluded:unreachable-type-with-missing-reference")
					return
				}
			}
		}
	}
	w.S.Evaluations++
	w.S.Traces++
	w.S.Nontrivial++
	w.S.Transitions += 4
	base, _ := observe(c05Project(r, reg, nil))
	wit, _ := stdjson.Marshal(c05Wit{Root: r, Reg: reg})
	in := c05Project(r, reg, nil).describe()
	fail := func(clause, detail string, sig map[string]string) {
		if sig == nil {
			sig = map[string]string{}
		}
		sig["pos"] = r.Sites[0].Pos
		if len(r.Sites) > 1 {
			sig["pos"] += "+" + r.Sites[1].Pos
		}
		w.Violate(core.Violation{Clause: clause, Entry: r.Shape, Input: in, Witness: wit, Detail: detail, Sig: sig})
	}
	if base.Panic != "" {
		fail("no-panic", base.Panic, nil)
		return
	}
	// (1) UsedUserTypes
	want := strings.Join(sortedCopy(r.names()), ",")
	got := strings.Join(sortedCopy(strings.Split(base.Used, ",")), ",")
	if base.Used == "" {
		got = ""
	}
	if got != want || hasDup(strings.Split(base.Used, ",")) {
		fail("used-user-types-exact", fmt.Sprintf("UsedUserTypes()=[%s], the root text refers to [%s]", base.Used, want), nil)
	}
	// (2) type-not-found iff a reachable name is unregistered
	is1302 := base.Code == int(errs.ErrUserTypeNotFound)
	if len(missing) > 0 {
		named := false
		for n := range missing {
			if strings.Contains(base.Msg+base.BuildErr, `"`+n+`"`) {
				named = true
			}
		}
		if !is1302 || !named {
			fail("missing-type-reported", fmt.Sprintf("reachable but unregistered: %v; Check(): code %d %q", keysOf(missing), base.Code, trunc(base.Msg+base.BuildErr, 100)), map[string]string{"code": fmt.Sprint(base.Code)})
		}
		w.Class("missing")
	} else {
		if is1302 {
			fail("no-false-type-not-found", fmt.Sprintf("every reachable type is registered, yet: %q", trunc(base.Msg, 100)), nil)
		} else if base.Code != 0 {
			w.Class(fmt.Sprintf("closed-but-rejected:%d", base.Code))
			fail("closed-valid-project-accepted", fmt.Sprintf("all definitions valid and registered; Check(): code %d %q", base.Code, trunc(base.Msg+base.BuildErr, 120)), map[string]string{"code": fmt.Sprint(base.Code)})
		} else {
			w.Class("closed-accepted")
		}
	}
	// (3) unreferenced valid types change nothing
	for _, extras := range [][]string{{"@z1"}, {"@z1", "@z2"}, {"@z3"}} {
		o, _ := observe(c05Project(r, reg, extras))
		same := o.Code == base.Code && o.Used == base.Used && o.Len == base.Len
		if base.Code == 0 {
			same = same && o.Example == base.Example && o.AST == base.AST && o.OpenAPI == base.OpenAPI
		}
		if !same || o.Panic != "" {
			fail("extra-types-change-nothing", fmt.Sprintf("with unreferenced %v registered: code %d used %q example %q; without: code %d used %q example %q", extras, o.Code, o.Used, trunc(o.Example, 50), base.Code, base.Used, trunc(base.Example, 50)), nil)
			break
		}
	}
}

func sortedCopy(a []string) []string {
	b := append([]string{}, a...)
	sortStrings(b)
	return b
}
func hasDup(a []string) bool {
	s := map[string]bool{}
	for _, x := range a {
		if s[x] {
			return true
		}
		s[x] = true
	}
	return false
}
func keysOf(m map[string]bool) []string {
	var out []string
	for k := range m {
		out = append(out, k)
	}
	sortStrings(out)
	return out
}

// c05Closure: the names reachable from the given ones when every definition is registered.
func c05Closure(names []string) []string {
	seen := map[string]bool{}
	var out []string
	queue := append([]string{}, names...)
	for len(queue) > 0 {
		n := queue[0]
		queue = queue[1:]
		if seen[n] {
			continue
		}
		seen[n] = true
		out = append(out, n)
		queue = append(queue, c05Refs[n]...)
	}
	sortStrings(out)
	return out
}

func c05Roots(thorough ...bool) []c05Root {
	sites := c05Sites()
	var out []c05Root
	for _, s := range sites {
		out = append(out, c05Root{"root", []c05Site{s}}, c05Root{"property", []c05Site{s}}, c05Root{"item", []c05Site{s}},
			c05Root{"property-under-type-like-key", []c05Site{s}}, c05Root{"nested-under-type-like-key", []c05Site{s}}, c05Root{"item-in-item", []c05Site{s}})
	}
	deep := len(thorough) > 0 && thorough[0]
	for i, a := range sites {
		for j, b := range sites {
			if deep || (i+j)%4 == 0 || a.Pos != b.Pos {
				out = append(out, c05Root{"two-properties", []c05Site{a, b}})
			}
			if deep || (i+j)%3 == 0 {
				out = append(out, c05Root{"property-and-item", []c05Site{a, b}})
			}
		}
	}
	if deep {
		// three sites: every pair of sites next to every site of a different position
		for _, a := range sites {
			for _, b := range sites {
				for _, c := range sites {
					if c.Pos != a.Pos && c.Pos != b.Pos && a.Pos <= b.Pos {
						out = append(out, c05Root{"three-properties", []c05Site{a, b, c}})
					}
				}
			}
		}
	}
	return out
}

// c05DecoratedRoots: a value shortcut (or a choice) carrying every rule of a small list,
// many of which the language refuses next to a reference.
func c05DecoratedRoots() []c05Root {
	anns := []string{
		`{or: ["string", "integer"]}`, `{or: ["string", "null"]}`, `{or: [{type: "string"}, {type: "integer"}]}`, `{or: ["@o", "integer"]}`,
		`{type: "mixed"}`, `{type: "any"}`, `{type: "string"}`, `{type: "mixed", or: ["string", "integer"]}`,
		`{min: 1}`, `{minLength: 1}`, `{regex: "s"}`, `{const: true}`, `{const: false}`, `{enum: ["s"]}`, `{precision: 1}`,
		`{nullable: true}`, `{nullable: false}`, `{nullable: true, or: ["string", "integer"]}`,
		`{minItems: 0}`, `{additionalProperties: true}`, `{additionalProperties: "string"}`, `{allOf: "@o"}`, `{serializeFormat: "integer"}`,
	}
	var out []c05Root
	for _, text := range []string{"@s", "@o", "@t", "@s | @o", "@ku"} {
		names := strings.Split(text, " | ")
		for _, ann := range anns {
			ns := append([]string{}, names...)
			if strings.Contains(ann, `"@o"`) && !strings.Contains(text, "@o") {
				ns = append(ns, "@o")
			}
			s := c05Site{Pos: "decorated-shortcut", Text: text, Ann: ann, Names: ns}
			out = append(out, c05Root{"root", []c05Site{s}}, c05Root{"property", []c05Site{s}}, c05Root{"item", []c05Site{s}})
		}
	}
	return out
}

func c05Decorated(w *core.W, r c05Root, reg []string) {
	registered := map[string]bool{}
	for _, n := range reg {
		registered[n] = true
	}
	// names written as the example value itself (the annotation may be refused as a whole,
	// the value shortcut may not be forgotten)
	var missing []string
	seen := map[string]bool{}
	queue := strings.Split(r.Sites[0].Text, " | ")
	for len(queue) > 0 {
		n := queue[0]
		queue = queue[1:]
		if seen[n] {
			continue
		}
		seen[n] = true
		if !registered[n] {
			missing = append(missing, n)
			continue
		}
		queue = append(queue, c05Refs[n]...)
	}
	w.S.Evaluations++
	w.S.Traces++
	w.S.Transitions++
	p := c05Project(r, reg, nil)
	o, _ := observe(p)
	wit, _ := stdjson.Marshal(c05Wit{Root: r, Reg: reg})
	if o.Panic != "" {
		w.Violate(core.Violation{Clause: "no-panic", Entry: r.Shape, Input: p.describe(), Witness: wit, Detail: o.Panic, Sig: map[string]string{"pos": "decorated-shortcut"}})
		return
	}
	if o.Code != 0 {
		w.Class(fmt.Sprintf("decorated-refused:%d", o.Code))
		return
	}
	w.S.Nontrivial++
	w.Class("decorated-accepted")
	if len(missing) > 0 {
		w.Violate(core.Violation{Clause: "reference-never-dropped", Entry: r.Shape, Input: p.describe(), Witness: wit,
			Detail: fmt.Sprintf("the example value refers to %v, which is not registered, yet Check() accepts the project (UsedUserTypes()=[%s])", missing, o.Used),
			Sig:    map[string]string{"pos": "decorated-shortcut", "ann": r.Sites[0].Ann}})
	}
}

func init() {
	Register(&Prop{
		ID:        "C05",
		Technique: "bounded exhaustive enumeration of schema projects x every subset of type definitions registered or withheld x unreferenced extra types, judged by a reachability reference over the model",
		Rule:      "roots with one or two reference sites from the 8 positions (value shortcut, @a | @b, key shortcut, type, or string item, or {type} item, allOf scalar and list, additionalProperties) at the root, in a property, in an array item; 11 closed definitions (string, object, object->string, object->object->string, and types referring onwards through additionalProperties, type, allOf, a self reference, a choice and a choice that spells out type mixed) x every subset of the reachable closure registered or withheld x {0,1,2} unreferenced valid types; thorough: all pairs and three-site roots; clauses: UsedUserTypes() = names in the root text without duplicates; 1302 naming a missing type iff a name reachable through registered definitions is unregistered; extras change no observable; a value shortcut or choice decorated with each of 23 annotations (most of which the language refuses next to a reference) is never accepted while a type it reaches is unregistered; non-trivial = projects outside the excluded region",
		Bounds: func(tier string) map[string]any {
			return map[string]any{"sites": len(c05Sites()), "roots": len(c05Roots()), "definitions": len(c05All)}
		},
		Run: func(w *core.W) {
			var i, states int64
			for _, r := range c05Roots(w.Thorough()) {
				i++
				if !w.Mine(i) {
					continue
				}
				if w.OverBudget() {
					return
				}
				// every subset of the types the root can reach is registered or withheld
				cl := c05Closure(r.names())
				for mask := 0; mask < 1<<len(cl); mask++ {
					var reg []string
					for b, n := range cl {
						if mask&(1<<b) != 0 {
							reg = append(reg, n)
						}
					}
					c05Case(w, r, reg)
					states++
				}
				if i%211 == 1 {
					w.Sample(r.text())
				}
			}
			// references written with rules the language may refuse: whatever the verdict
			// on the rules, a project that names an unregistered type is never accepted
			for _, r := range c05DecoratedRoots() {
				i++
				if !w.Mine(i) {
					continue
				}
				cl := c05Closure(r.names())
				for mask := 0; mask < 1<<len(cl); mask++ {
					var reg []string
					for b, n := range cl {
						if mask&(1<<b) != 0 {
							reg = append(reg, n)
						}
					}
					c05Decorated(w, r, reg)
					states++
				}
			}
			w.S.States += states
			if w.Shard == 0 {
				w.Count("roots", i)
			}
		},
		Replay: func(w *core.W, v *core.Violation) {
			var wit c05Wit
			if stdjson.Unmarshal(v.Witness, &wit) == nil {
				if v.Clause == "reference-never-dropped" {
					c05Decorated(w, wit.Root, wit.Reg)
					return
				}
				c05Case(w, wit.Root, wit.Reg)
			}
		},
		Assumptions: []string{
			"excluded: a registered but unreachable type that itself refers to an unregistered type (the checker validates every registered type; the statement speaks of 'additional valid types')",
			"when several reachable types are missing, any one of them may be named",
		},
	})
}
