package props

import (
	"encoding/hex"
	"fmt"
	"runtime/debug"
	"strings"

	"verifmc/core"
)

func bv(clause, entry string, in []byte, detail string, sig map[string]string) core.Violation {
	q, h := core.ByteInput(in)
	return core.Violation{Clause: clause, Entry: entry, Input: q, InputHex: h, Detail: detail, Sig: sig}
}

func inputBytes(v *core.Violation) []byte {
	b, _ := hex.DecodeString(v.InputHex)
	return b
}

// guard runs f and converts an escaping panic into (recovered value, top repo frame).
func guard(f func()) (rec any, site string) {
	defer func() {
		if r := recover(); r != nil {
			rec = r
			site = topRepoFrame(string(debug.Stack()))
		}
	}()
	f()
	return nil, ""
}

// topRepoFrame extracts the innermost frame inside the repository from a stack dump.
func topRepoFrame(stack string) string {
	lines := strings.Split(stack, "\n")
	for i := 0; i < len(lines)-1; i++ {
		l := lines[i]
		if strings.HasPrefix(l, "github.com/jsightapi/jsight-schema-core") && !strings.Contains(l, "panics.Handle") {
			fn := l
			if j := strings.LastIndex(fn, "("); j > 0 {
				fn = fn[:j]
			}
			fn = strings.TrimPrefix(fn, "github.com/jsightapi/jsight-schema-core/")
			// skip the frames of deferred recover helpers
			return fn
		}
	}
	return "?"
}

func trunc(s string, n int) string {
	if len(s) > n {
		return s[:n] + "…"
	}
	return s
}

func errStr(err error) string {
	if err == nil {
		return "<nil>"
	}
	var s string
	if r, _ := guard(func() { s = err.Error() }); r != nil {
		return fmt.Sprintf("<Error() panicked: %v>", r)
	}
	return trunc(s, 300)
}
