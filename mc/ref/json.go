// Package ref: reference semantics (oracles), independent of the repository code.
package ref

import (
	"bytes"
	"encoding/json"
	"fmt"
	"strings"
)

// ---------------------------------------------------------------- RFC 8259 push-down recogniser
//
// JPDA answers three questions about a byte string w read so far:
//   Dead      – no extension of w is a JSON text
//   Complete  – w itself is a JSON text (optional blanks, one value, optional blanks)
//   otherwise – w is a proper viable prefix
// It is cross-checked against encoding/json.Valid on every enumerated string.

type jst uint8

const (
	jValue        jst = iota // expecting a value
	jValueOrClose            // after '[' : value or ']'
	jKeyOrClose              // after '{' : '"' or '}'
	jKey                     // after ',' in object: '"'
	jColon                   // after key
	jAfterValue              // after a complete value inside a container: ',' or close
	jStr                     // inside string
	jStrEsc
	jStrU1
	jStrU2
	jStrU3
	jStrU4
	jNeg   // after '-'
	jZero  // after leading 0
	jInt   // after 1-9 digits
	jDot   // after '.'
	jFrac  // after '.' digits
	jE     // after e/E
	jESign // after e+ / e-
	jExp   // after exponent digits
	jLit   // inside true/false/null
	jTopEnd
	jDead
)

type JPDA struct {
	st      jst
	stack   []byte // '{' or '['
	strKey  bool   // the string being read is a key
	lit     string
	litPos  int
	started bool
}

func NewJPDA() *JPDA { return &JPDA{st: jValue} }

func isBlank(c byte) bool { return c == ' ' || c == '\t' || c == '\n' || c == '\r' }
func isDigit(c byte) bool { return '0' <= c && c <= '9' }
func isHex(c byte) bool {
	return isDigit(c) || ('a' <= c && c <= 'f') || ('A' <= c && c <= 'F')
}

func (p *JPDA) endValue() {
	if len(p.stack) == 0 {
		p.st = jTopEnd
	} else {
		p.st = jAfterValue
	}
}

func (p *JPDA) beginValue(c byte) {
	switch {
	case c == '{':
		p.stack = append(p.stack, '{')
		p.st = jKeyOrClose
	case c == '[':
		p.stack = append(p.stack, '[')
		p.st = jValueOrClose
	case c == '"':
		p.st = jStr
		p.strKey = false
	case c == '-':
		p.st = jNeg
	case c == '0':
		p.st = jZero
	case '1' <= c && c <= '9':
		p.st = jInt
	case c == 't':
		p.st, p.lit, p.litPos = jLit, "true", 1
	case c == 'f':
		p.st, p.lit, p.litPos = jLit, "false", 1
	case c == 'n':
		p.st, p.lit, p.litPos = jLit, "null", 1
	default:
		p.st = jDead
	}
}

// numberEnd handles a byte that terminates a number.
func (p *JPDA) numberEnd(c byte) {
	p.endValue()
	p.Step(c)
}

func (p *JPDA) Step(c byte) {
	switch p.st {
	case jDead:
	case jValue:
		if isBlank(c) {
			return
		}
		p.beginValue(c)
	case jValueOrClose:
		if isBlank(c) {
			return
		}
		if c == ']' {
			p.stack = p.stack[:len(p.stack)-1]
			p.endValue()
			return
		}
		p.beginValue(c)
	case jKeyOrClose:
		if isBlank(c) {
			return
		}
		if c == '}' {
			p.stack = p.stack[:len(p.stack)-1]
			p.endValue()
			return
		}
		if c == '"' {
			p.st, p.strKey = jStr, true
			return
		}
		p.st = jDead
	case jKey:
		if isBlank(c) {
			return
		}
		if c == '"' {
			p.st, p.strKey = jStr, true
			return
		}
		p.st = jDead
	case jColon:
		if isBlank(c) {
			return
		}
		if c == ':' {
			p.st = jValue
			return
		}
		p.st = jDead
	case jAfterValue:
		if isBlank(c) {
			return
		}
		top := p.stack[len(p.stack)-1]
		switch {
		case c == ',' && top == '{':
			p.st = jKey
		case c == ',' && top == '[':
			p.st = jValue
		case c == '}' && top == '{', c == ']' && top == '[':
			p.stack = p.stack[:len(p.stack)-1]
			p.endValue()
		default:
			p.st = jDead
		}
	case jStr:
		switch {
		case c == '"':
			if p.strKey {
				p.st = jColon
			} else {
				p.endValue()
			}
		case c == '\\':
			p.st = jStrEsc
		case c < 0x20:
			p.st = jDead
		}
	case jStrEsc:
		switch c {
		case 'b', 'f', 'n', 'r', 't', '\\', '/', '"':
			p.st = jStr
		case 'u':
			p.st = jStrU1
		default:
			p.st = jDead
		}
	case jStrU1, jStrU2, jStrU3:
		if isHex(c) {
			p.st++
		} else {
			p.st = jDead
		}
	case jStrU4:
		if isHex(c) {
			p.st = jStr
		} else {
			p.st = jDead
		}
	case jNeg:
		if c == '0' {
			p.st = jZero
		} else if '1' <= c && c <= '9' {
			p.st = jInt
		} else {
			p.st = jDead
		}
	case jZero:
		switch {
		case c == '.':
			p.st = jDot
		case c == 'e' || c == 'E':
			p.st = jE
		default:
			p.numberEnd(c)
		}
	case jInt:
		switch {
		case isDigit(c):
		case c == '.':
			p.st = jDot
		case c == 'e' || c == 'E':
			p.st = jE
		default:
			p.numberEnd(c)
		}
	case jDot:
		if isDigit(c) {
			p.st = jFrac
		} else {
			p.st = jDead
		}
	case jFrac:
		switch {
		case isDigit(c):
		case c == 'e' || c == 'E':
			p.st = jE
		default:
			p.numberEnd(c)
		}
	case jE:
		if c == '+' || c == '-' {
			p.st = jESign
		} else if isDigit(c) {
			p.st = jExp
		} else {
			p.st = jDead
		}
	case jESign:
		if isDigit(c) {
			p.st = jExp
		} else {
			p.st = jDead
		}
	case jExp:
		if !isDigit(c) {
			p.numberEnd(c)
		}
	case jLit:
		if p.litPos < len(p.lit) && c == p.lit[p.litPos] {
			p.litPos++
			if p.litPos == len(p.lit) {
				p.endValue()
			}
		} else {
			p.st = jDead
		}
	case jTopEnd:
		if !isBlank(c) {
			p.st = jDead
		}
	}
}

func (p *JPDA) Dead() bool { return p.st == jDead }

// Complete: the text read so far is a JSON text.
func (p *JPDA) Complete() bool {
	if len(p.stack) != 0 {
		return false
	}
	switch p.st {
	case jTopEnd, jZero, jInt, jFrac, jExp:
		return true
	}
	return false
}

// InNumber reports whether the last byte read belongs to an unterminated number token.
func (p *JPDA) InNumber() bool {
	switch p.st {
	case jNeg, jZero, jInt, jDot, jFrac, jE, jESign, jExp:
		return true
	}
	return false
}

func JSONStatus(b []byte) (complete, dead bool) {
	p := NewJPDA()
	for _, c := range b {
		p.Step(c)
		if p.Dead() {
			return false, true
		}
	}
	return p.Complete(), false
}

// JSONCompletion returns, for a proper viable prefix b of a JSON text, b extended by a
// shortest suffix that makes it a JSON text (nil when b is dead or already complete).
// The explicit-state searches check it next to every explored transition, so that a
// scanner which wrongly dies on a byte is confronted with a document the reference accepts.
func JSONCompletion(b []byte) []byte {
	p := NewJPDA()
	for _, c := range b {
		p.Step(c)
		if p.Dead() {
			return nil
		}
	}
	if p.Complete() {
		return nil
	}
	type node struct {
		p   *JPDA
		suf []byte
	}
	key := func(q *JPDA) string {
		return fmt.Sprintf("%d|%s|%v|%s|%d", q.st, q.stack, q.strKey, q.lit, q.litPos)
	}
	seen := map[string]bool{key(p): true}
	frontier := []node{{p, nil}}
	alphabet := []byte("\"0]}:truefalsn")
	for depth := 0; depth < 24 && len(frontier) > 0; depth++ {
		var next []node
		for _, n := range frontier {
			for _, c := range alphabet {
				q := *n.p
				q.stack = append([]byte{}, n.p.stack...)
				q.Step(c)
				if q.Dead() {
					continue
				}
				suf := append(append([]byte{}, n.suf...), c)
				if q.Complete() {
					return append(append([]byte{}, b...), suf...)
				}
				if k := key(&q); !seen[k] {
					seen[k] = true
					next = append(next, node{&q, suf})
				}
			}
		}
		frontier = next
	}
	return nil
}

// ---------------------------------------------------------------- ordered decoding

// JVal is an order-preserving JSON tree.
type JVal struct {
	Kind  byte   // 'o' 'a' 's' 'n' 't' 'f' 'z'(null)
	Str   string // decoded string (Kind 's') or raw number text (Kind 'n')
	Keys  []string
	Items []JVal // object values or array items
}

func (v JVal) String() string {
	var b strings.Builder
	v.write(&b)
	return b.String()
}

func (v JVal) write(b *strings.Builder) {
	switch v.Kind {
	case 'o':
		b.WriteByte('{')
		for i, k := range v.Keys {
			if i > 0 {
				b.WriteByte(',')
			}
			fmt.Fprintf(b, "%q:", k)
			v.Items[i].write(b)
		}
		b.WriteByte('}')
	case 'a':
		b.WriteByte('[')
		for i := range v.Items {
			if i > 0 {
				b.WriteByte(',')
			}
			v.Items[i].write(b)
		}
		b.WriteByte(']')
	case 's':
		fmt.Fprintf(b, "%q", v.Str)
	case 'n':
		b.WriteString(v.Str)
	case 't':
		b.WriteString("true")
	case 'f':
		b.WriteString("false")
	case 'z':
		b.WriteString("null")
	}
}

// DecodeOrdered parses JSON text with encoding/json's token decoder, keeping key
// order and raw number text.
func DecodeOrdered(data []byte) (JVal, error) {
	dec := json.NewDecoder(bytes.NewReader(data))
	dec.UseNumber()
	v, err := decodeValue(dec)
	if err != nil {
		return JVal{}, err
	}
	if _, err := dec.Token(); err == nil {
		return JVal{}, fmt.Errorf("trailing data")
	}
	return v, nil
}

func decodeValue(dec *json.Decoder) (JVal, error) {
	t, err := dec.Token()
	if err != nil {
		return JVal{}, err
	}
	switch x := t.(type) {
	case json.Delim:
		switch x {
		case '{':
			v := JVal{Kind: 'o'}
			for dec.More() {
				kt, err := dec.Token()
				if err != nil {
					return JVal{}, err
				}
				k, ok := kt.(string)
				if !ok {
					return JVal{}, fmt.Errorf("non-string key")
				}
				c, err := decodeValue(dec)
				if err != nil {
					return JVal{}, err
				}
				v.Keys = append(v.Keys, k)
				v.Items = append(v.Items, c)
			}
			if _, err := dec.Token(); err != nil {
				return JVal{}, err
			}
			return v, nil
		case '[':
			v := JVal{Kind: 'a'}
			for dec.More() {
				c, err := decodeValue(dec)
				if err != nil {
					return JVal{}, err
				}
				v.Items = append(v.Items, c)
			}
			if _, err := dec.Token(); err != nil {
				return JVal{}, err
			}
			return v, nil
		}
		return JVal{}, fmt.Errorf("unexpected delimiter %v", x)
	case string:
		return JVal{Kind: 's', Str: x}, nil
	case json.Number:
		return JVal{Kind: 'n', Str: string(x)}, nil
	case bool:
		if x {
			return JVal{Kind: 't'}, nil
		}
		return JVal{Kind: 'f'}, nil
	case nil:
		return JVal{Kind: 'z'}, nil
	}
	return JVal{}, fmt.Errorf("unexpected token %v", t)
}

// DecodeString decodes one JSON string literal (with quotes).
func DecodeString(lit []byte) (string, bool) {
	var s string
	if err := json.Unmarshal(lit, &s); err != nil {
		return "", false
	}
	return s, true
}

var jstNames = [...]string{"value", "valueOrClose", "keyOrClose", "key", "colon", "afterValue", "str", "strEsc", "strU1", "strU2", "strU3", "strU4",
	"neg", "zero", "int", "dot", "frac", "e", "eSign", "exp", "lit", "topEnd", "dead"}

// StateName names the PDA control state (used as a violation discriminator).
func (p *JPDA) StateName() string { return jstNames[p.st] }
