package ref

import (
	"fmt"
	"strings"
)

// RV is a parsed rule value (annotation object syntax: JSON with bare keys and a
// bare @name allowed as value).
type RV struct {
	Kind  byte   // 'o' 'a' 's' 'n' 'b' 'z' 'r'(bare @ref)
	Text  string // raw text for n/b/z/r, decoded text for s
	Keys  []string
	Items []RV
}

type rvParser struct {
	s   string
	pos int
}

func (p *rvParser) ws() {
	for p.pos < len(p.s) && strings.ContainsRune(" \t\r\n", rune(p.s[p.pos])) {
		p.pos++
	}
}

// ParseRuleValue parses the source text of a rule value.
func ParseRuleValue(src string) (RV, error) {
	p := &rvParser{s: src}
	v, err := p.value()
	if err != nil {
		return RV{}, err
	}
	p.ws()
	if p.pos != len(p.s) {
		return RV{}, fmt.Errorf("trailing text in rule value %q", src)
	}
	return v, nil
}

func (p *rvParser) str() (string, error) {
	start := p.pos
	p.pos++
	for p.pos < len(p.s) {
		if p.s[p.pos] == '\\' {
			p.pos += 2
			continue
		}
		if p.s[p.pos] == '"' {
			p.pos++
			d, ok := DecodeString([]byte(p.s[start:p.pos]))
			if !ok {
				return "", fmt.Errorf("bad string %q", p.s[start:p.pos])
			}
			return d, nil
		}
		p.pos++
	}
	return "", fmt.Errorf("unterminated string")
}

func (p *rvParser) value() (RV, error) {
	p.ws()
	if p.pos >= len(p.s) {
		return RV{}, fmt.Errorf("empty value")
	}
	switch c := p.s[p.pos]; {
	case c == '{':
		p.pos++
		o := RV{Kind: 'o'}
		for {
			p.ws()
			if p.pos < len(p.s) && p.s[p.pos] == '}' {
				p.pos++
				return o, nil
			}
			var key string
			if p.s[p.pos] == '"' {
				k, err := p.str()
				if err != nil {
					return o, err
				}
				key = k
			} else {
				st := p.pos
				for p.pos < len(p.s) && p.s[p.pos] != ':' {
					p.pos++
				}
				key = strings.TrimSpace(p.s[st:p.pos])
			}
			p.ws()
			if p.pos >= len(p.s) || p.s[p.pos] != ':' {
				return o, fmt.Errorf("':' expected")
			}
			p.pos++
			v, err := p.value()
			if err != nil {
				return o, err
			}
			o.Keys = append(o.Keys, key)
			o.Items = append(o.Items, v)
			p.ws()
			if p.pos < len(p.s) && p.s[p.pos] == ',' {
				p.pos++
			}
		}
	case c == '[':
		p.pos++
		a := RV{Kind: 'a'}
		for {
			p.ws()
			if p.pos < len(p.s) && p.s[p.pos] == ']' {
				p.pos++
				return a, nil
			}
			v, err := p.value()
			if err != nil {
				return a, err
			}
			a.Items = append(a.Items, v)
			p.ws()
			if p.pos < len(p.s) && p.s[p.pos] == ',' {
				p.pos++
			}
		}
	case c == '"':
		s, err := p.str()
		return RV{Kind: 's', Text: s}, err
	default:
		st := p.pos
		for p.pos < len(p.s) && !strings.ContainsRune(",]} \t\r\n", rune(p.s[p.pos])) {
			p.pos++
		}
		t := p.s[st:p.pos]
		switch {
		case t == "true" || t == "false":
			return RV{Kind: 'b', Text: t}, nil
		case t == "null":
			return RV{Kind: 'z', Text: t}, nil
		case strings.HasPrefix(t, "@"):
			return RV{Kind: 'r', Text: t}, nil
		case t == "":
			return RV{}, fmt.Errorf("value expected at %d", st)
		}
		return RV{Kind: 'n', Text: t}, nil
	}
}
