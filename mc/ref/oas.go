package ref

import (
	"bytes"
	"encoding/json"
	"fmt"
	"math/big"
	"regexp"
	"sort"
	"strings"
	"unicode/utf8"
)

// OpenAPI 3.0 Schema Object: well-formedness + instance validation (JSON Schema
// draft-4 semantics with `nullable`, boolean exclusiveMinimum/Maximum, $ref into a
// components map, exact-decimal multipleOf). `format` is an annotation.

type OAS struct {
	Components map[string]any // name (without @) -> schema
}

func DecodeAny(b []byte) (any, error) {
	dec := json.NewDecoder(bytes.NewReader(b))
	dec.UseNumber()
	var v any
	if err := dec.Decode(&v); err != nil {
		return nil, err
	}
	var extra any
	if dec.Decode(&extra) == nil {
		return nil, fmt.Errorf("trailing data")
	}
	return v, nil
}

var oasKeywords = map[string]string{
	"type": "string", "example": "any", "pattern": "string", "format": "string", "enum": "array", "minimum": "number", "maximum": "number",
	"exclusiveMinimum": "boolean", "exclusiveMaximum": "boolean", "minLength": "uint", "maxLength": "uint", "multipleOf": "number",
	"nullable": "boolean", "description": "string", "items": "schema", "minItems": "uint", "maxItems": "uint", "properties": "schemas",
	"required": "strings", "additionalProperties": "bool-or-schema", "anyOf": "schemalist", "allOf": "schemalist", "oneOf": "schemalist", "$ref": "string",
	"not": "schema", "title": "string", "default": "any", "uniqueItems": "boolean", "minProperties": "uint", "maxProperties": "uint", "readOnly": "boolean", "writeOnly": "boolean", "deprecated": "boolean",
}

var oasTypes = map[string]bool{"string": true, "number": true, "integer": true, "boolean": true, "array": true, "object": true}

func kindOf(v any) string {
	switch x := v.(type) {
	case nil:
		return "null"
	case bool:
		return "boolean"
	case json.Number:
		_ = x
		return "number"
	case string:
		return "string"
	case []any:
		return "array"
	case map[string]any:
		return "object"
	}
	return "?"
}

func isUint(v any) bool {
	n, ok := v.(json.Number)
	if !ok {
		return false
	}
	r, ok := new(big.Rat).SetString(string(n))
	return ok && r.IsInt() && r.Sign() >= 0
}

// WellFormed checks that s is a well-formed Schema Object.
func (o *OAS) WellFormed(s any, path string) error {
	m, ok := s.(map[string]any)
	if !ok {
		return fmt.Errorf("%s: schema is %s, not an object", path, kindOf(s))
	}
	if r, ok := m["$ref"]; ok {
		rs, isStr := r.(string)
		if !isStr || !strings.HasPrefix(rs, "#/components/schemas/") {
			return fmt.Errorf("%s: bad $ref %v", path, r)
		}
		if len(m) != 1 {
			return fmt.Errorf("%s: $ref with sibling keywords", path)
		}
		if _, ok := o.Components[strings.TrimPrefix(rs, "#/components/schemas/")]; !ok {
			return fmt.Errorf("%s: $ref %s does not resolve", path, rs)
		}
		return nil
	}
	for k, v := range m {
		want, known := oasKeywords[k]
		if !known {
			return fmt.Errorf("%s: unknown keyword %q", path, k)
		}
		bad := func() error { return fmt.Errorf("%s: keyword %q has a value of kind %s", path, k, kindOf(v)) }
		switch want {
		case "string":
			if kindOf(v) != "string" {
				return bad()
			}
			if k == "type" && !oasTypes[v.(string)] {
				return fmt.Errorf("%s: type %q is not an OpenAPI type", path, v)
			}
			if k == "pattern" {
				if _, err := regexp.Compile(v.(string)); err != nil {
					return fmt.Errorf("%s: pattern does not compile: %v", path, err)
				}
			}
		case "number":
			if kindOf(v) != "number" {
				return bad()
			}
			if k == "multipleOf" {
				if r, ok := new(big.Rat).SetString(string(v.(json.Number))); !ok || r.Sign() <= 0 {
					return fmt.Errorf("%s: multipleOf must be > 0", path)
				}
			}
		case "boolean":
			if kindOf(v) != "boolean" {
				return bad()
			}
		case "uint":
			if !isUint(v) {
				return bad()
			}
		case "array":
			a, ok := v.([]any)
			if !ok || len(a) == 0 {
				return fmt.Errorf("%s: %q must be a non-empty array", path, k)
			}
		case "strings":
			a, ok := v.([]any)
			if !ok || len(a) == 0 {
				return fmt.Errorf("%s: %q must be a non-empty array of strings", path, k)
			}
			seen := map[string]bool{}
			for _, it := range a {
				s, ok := it.(string)
				if !ok || seen[s] {
					return fmt.Errorf("%s: %q must hold unique strings", path, k)
				}
				seen[s] = true
			}
		case "schema":
			if err := o.WellFormed(v, path+"/"+k); err != nil {
				return err
			}
		case "schemas":
			pm, ok := v.(map[string]any)
			if !ok {
				return bad()
			}
			for pk, pv := range pm {
				if err := o.WellFormed(pv, path+"/"+k+"/"+pk); err != nil {
					return err
				}
			}
		case "schemalist":
			a, ok := v.([]any)
			if !ok || len(a) == 0 {
				return fmt.Errorf("%s: %q must be a non-empty array of schemas", path, k)
			}
			for i, it := range a {
				if err := o.WellFormed(it, fmt.Sprintf("%s/%s/%d", path, k, i)); err != nil {
					return err
				}
			}
		case "bool-or-schema":
			if kindOf(v) != "boolean" {
				if err := o.WellFormed(v, path+"/"+k); err != nil {
					return err
				}
			}
		}
	}
	if _, ok := m["exclusiveMinimum"]; ok {
		if _, ok := m["minimum"]; !ok {
			return fmt.Errorf("%s: exclusiveMinimum without minimum", path)
		}
	}
	if _, ok := m["exclusiveMaximum"]; ok {
		if _, ok := m["maximum"]; !ok {
			return fmt.Errorf("%s: exclusiveMaximum without maximum", path)
		}
	}
	return nil
}

func rat(v any) *big.Rat {
	n, ok := v.(json.Number)
	if !ok {
		return nil
	}
	r, ok := new(big.Rat).SetString(string(n))
	if !ok {
		return nil
	}
	return r
}

// Equal: JSON value equality (numbers numerically).
func Equal(a, b any) bool {
	if kindOf(a) != kindOf(b) {
		return false
	}
	switch x := a.(type) {
	case json.Number:
		return rat(x).Cmp(rat(b)) == 0
	case []any:
		y := b.([]any)
		if len(x) != len(y) {
			return false
		}
		for i := range x {
			if !Equal(x[i], y[i]) {
				return false
			}
		}
		return true
	case map[string]any:
		y := b.(map[string]any)
		if len(x) != len(y) {
			return false
		}
		for k, v := range x {
			w, ok := y[k]
			if !ok || !Equal(v, w) {
				return false
			}
		}
		return true
	}
	return a == b
}

// Validate returns nil when inst is a valid instance of schema s; the error names
// the failing keyword first ("keyword: detail").
func (o *OAS) Validate(s any, inst any, depth int) error {
	if depth > 40 {
		return fmt.Errorf("$ref: recursion too deep")
	}
	m, ok := s.(map[string]any)
	if !ok {
		return fmt.Errorf("schema: not an object")
	}
	if r, ok := m["$ref"].(string); ok {
		t, ok := o.Components[strings.TrimPrefix(r, "#/components/schemas/")]
		if !ok {
			return fmt.Errorf("$ref: %s does not resolve", r)
		}
		return o.Validate(t, inst, depth+1)
	}
	if n, ok := m["nullable"].(bool); ok && n && inst == nil {
		return nil
	}
	if t, ok := m["type"].(string); ok {
		k := kindOf(inst)
		good := k == t
		if t == "integer" {
			good = k == "number" && rat(inst).IsInt()
		}
		if !good {
			return fmt.Errorf("type: instance is %s, schema wants %s", k, t)
		}
	}
	if e, ok := m["enum"].([]any); ok {
		found := false
		for _, it := range e {
			if Equal(it, inst) {
				found = true
			}
		}
		if !found {
			return fmt.Errorf("enum: instance is not one of the %d values", len(e))
		}
	}
	if kindOf(inst) == "number" {
		v := rat(inst)
		if mn := rat(m["minimum"]); mn != nil {
			ex, _ := m["exclusiveMinimum"].(bool)
			if c := v.Cmp(mn); c < 0 || (ex && c == 0) {
				return fmt.Errorf("minimum: %s violates minimum %s (exclusive=%v)", v.RatString(), mn.RatString(), ex)
			}
		}
		if mx := rat(m["maximum"]); mx != nil {
			ex, _ := m["exclusiveMaximum"].(bool)
			if c := v.Cmp(mx); c > 0 || (ex && c == 0) {
				return fmt.Errorf("maximum: %s violates maximum %s (exclusive=%v)", v.RatString(), mx.RatString(), ex)
			}
		}
		if mo := rat(m["multipleOf"]); mo != nil && mo.Sign() > 0 {
			if q := new(big.Rat).Quo(v, mo); !q.IsInt() {
				return fmt.Errorf("multipleOf: %s is not a multiple of %s", v.RatString(), mo.RatString())
			}
		}
	}
	if sv, ok := inst.(string); ok {
		n := utf8.RuneCountInString(sv)
		if mn := rat(m["minLength"]); mn != nil && big.NewRat(int64(n), 1).Cmp(mn) < 0 {
			return fmt.Errorf("minLength: length %d", n)
		}
		if mx := rat(m["maxLength"]); mx != nil && big.NewRat(int64(n), 1).Cmp(mx) > 0 {
			return fmt.Errorf("maxLength: length %d", n)
		}
		if p, ok := m["pattern"].(string); ok {
			re, err := regexp.Compile(p)
			if err != nil {
				return fmt.Errorf("pattern: does not compile")
			}
			if !re.MatchString(sv) {
				return fmt.Errorf("pattern: %q does not match %q", sv, p)
			}
		}
	}
	if av, ok := inst.([]any); ok {
		if mn := rat(m["minItems"]); mn != nil && big.NewRat(int64(len(av)), 1).Cmp(mn) < 0 {
			return fmt.Errorf("minItems: %d items", len(av))
		}
		if mx := rat(m["maxItems"]); mx != nil && big.NewRat(int64(len(av)), 1).Cmp(mx) > 0 {
			return fmt.Errorf("maxItems: %d items", len(av))
		}
		if it, ok := m["items"]; ok {
			for i, x := range av {
				if err := o.Validate(it, x, depth+1); err != nil {
					return fmt.Errorf("items[%d].%v", i, err)
				}
			}
		}
	}
	if ov, ok := inst.(map[string]any); ok {
		props, _ := m["properties"].(map[string]any)
		if req, ok := m["required"].([]any); ok {
			for _, r := range req {
				if rs, ok := r.(string); ok {
					if _, has := ov[rs]; !has {
						return fmt.Errorf("required: property %q is missing", rs)
					}
				}
			}
		}
		keys := make([]string, 0, len(ov))
		for k := range ov {
			keys = append(keys, k)
		}
		sort.Strings(keys)
		for _, k := range keys {
			if ps, ok := props[k]; ok {
				if err := o.Validate(ps, ov[k], depth+1); err != nil {
					return fmt.Errorf("properties[%s].%v", k, err)
				}
				continue
			}
			switch ap := m["additionalProperties"].(type) {
			case bool:
				if !ap {
					return fmt.Errorf("additionalProperties: property %q is not allowed", k)
				}
			case map[string]any:
				if err := o.Validate(ap, ov[k], depth+1); err != nil {
					return fmt.Errorf("additionalProperties[%s].%v", k, err)
				}
			}
		}
	}
	if l, ok := m["allOf"].([]any); ok {
		for i, sub := range l {
			if err := o.Validate(sub, inst, depth+1); err != nil {
				return fmt.Errorf("allOf[%d].%v", i, err)
			}
		}
	}
	if l, ok := m["anyOf"].([]any); ok {
		okAny := false
		var all []string
		for _, sub := range l {
			if err := o.Validate(sub, inst, depth+1); err == nil {
				okAny = true
				break
			} else {
				all = append(all, err.Error())
			}
		}
		if !okAny {
			return fmt.Errorf("anyOf: no alternative matches (%s)", strings.Join(all, " | "))
		}
	}
	if l, ok := m["oneOf"].([]any); ok {
		n := 0
		for _, sub := range l {
			if o.Validate(sub, inst, depth+1) == nil {
				n++
			}
		}
		if n != 1 {
			return fmt.Errorf("oneOf: %d alternatives match", n)
		}
	}
	return nil
}
