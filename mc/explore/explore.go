// Package explore: deviation-bounded depth-first search over choice sequences
// (shared by E-ENV and E-SCHED). An execution is identified by the choices it took;
// choice 0 is always the default environment answer. Every execution runs to
// completion; a replayed prefix that does not fit is a hard error.
package explore

import "fmt"

type point struct {
	n    int // number of alternatives
	cost int // deviations charged for taking a non-default alternative here
}

// Chooser is handed to one execution.
type Chooser struct {
	prefix   []int
	Choices  []int
	points   []point
	Diverged string
}

// NewChooser returns a chooser that replays the given choices and then takes defaults.
func NewChooser(prefix []int) *Chooser { return &Chooser{prefix: prefix} }

// Choose returns the alternative to take at this point (0 = default).
func (c *Chooser) Choose(n int) int { return c.ChooseCost(n, 1) }

// ChooseCost: cost is the number of deviations a non-default choice counts for
// (0 for a forced switch, e.g. when the running thread is blocked).
func (c *Chooser) ChooseCost(n, cost int) int {
	i := len(c.Choices)
	v := 0
	if i < len(c.prefix) {
		v = c.prefix[i]
		if v >= n {
			if c.Diverged == "" {
				c.Diverged = fmt.Sprintf("replayed choice %d at point %d but only %d alternatives exist", v, i, n)
			}
			v = 0
		}
	}
	c.Choices = append(c.Choices, v)
	c.points = append(c.points, point{n, cost})
	return v
}

type Explorer struct {
	Bound   int              // maximum number of deviations
	MaxExec int64            // safety cap (0 = none)
	Run     func(c *Chooser) // one complete execution
	Stop    func() bool      // polled between executions (run deadline)
	// Shard/Of: the subtrees hanging off the default execution are dealt round-robin
	// to Of processes (the default execution itself is run by every shard).
	Shard, Of  int
	top        int64
	Executions int64
	Capped     bool
	Divergence string
}

func (e *Explorer) Explore() { e.explore(nil) }

func (e *Explorer) explore(prefix []int) {
	if e.Capped || (e.Stop != nil && e.Stop()) {
		e.Capped = true
		return
	}
	if e.MaxExec > 0 && e.Executions >= e.MaxExec {
		e.Capped = true
		return
	}
	c := &Chooser{prefix: prefix}
	e.Run(c)
	e.Executions++
	if c.Diverged != "" && e.Divergence == "" {
		e.Divergence = c.Diverged
	}
	dev := 0
	for i := 0; i < len(c.Choices); i++ {
		if i >= len(prefix) {
			p := c.points[i]
			if dev+p.cost <= e.Bound {
				for alt := 1; alt < p.n; alt++ {
					if len(prefix) == 0 && e.Of > 1 {
						e.top++
						if int(e.top%int64(e.Of)) != e.Shard {
							continue
						}
					}
					next := append(append([]int{}, c.Choices[:i]...), alt)
					e.explore(next)
				}
			}
		}
		if c.Choices[i] != 0 {
			dev += c.points[i].cost
		}
	}
}

// Perms returns the orders offered for n keys: all n! permutations when n <= 4,
// otherwise the pair-complete set (rotations, transpositions of the default, the
// reversal: every pair of keys occurs in both relative orders). Index 0 is the
// identity.
func Perms(n int) [][]int {
	id := make([]int, n)
	for i := range id {
		id[i] = i
	}
	if n <= 1 {
		return [][]int{id}
	}
	if n <= 4 {
		var out [][]int
		var rec func(cur []int, used []bool)
		rec = func(cur []int, used []bool) {
			if len(cur) == n {
				out = append(out, append([]int{}, cur...))
				return
			}
			for i := 0; i < n; i++ {
				if !used[i] {
					used[i] = true
					rec(append(cur, i), used)
					used[i] = false
				}
			}
		}
		rec(nil, make([]bool, n))
		return out // lexicographic: identity first
	}
	out := [][]int{id}
	seen := map[string]bool{fmt.Sprint(id): true}
	add := func(p []int) {
		k := fmt.Sprint(p)
		if !seen[k] {
			seen[k] = true
			out = append(out, p)
		}
	}
	for r := 1; r < n; r++ {
		p := make([]int, n)
		for i := range p {
			p[i] = (i + r) % n
		}
		add(p)
	}
	for i := 0; i < n; i++ {
		for j := i + 1; j < n; j++ {
			p := append([]int{}, id...)
			p[i], p[j] = p[j], p[i]
			add(p)
		}
	}
	rev := make([]int, n)
	for i := range rev {
		rev[i] = n - 1 - i
	}
	add(rev)
	return out
}
