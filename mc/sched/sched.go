// Package sched: E-SCHED — a cooperative scheduler for the instrumented build.
// Harness threads are real goroutines, but exactly one runs at a time; every
// vsync operation is a scheduling point at which the explorer chooses the thread
// that runs next (preemption-bounded) and, for Pool.Get, the item handed out.
package sched

import (
	"fmt"

	"github.com/jsightapi/jsight-schema-core/verifshim/vsync"

	"verifmc/explore"
)

type thread struct {
	id      int
	resume  chan struct{}
	enabled func() bool // nil = runnable
	done    bool
	what    string
}

type Sched struct {
	ch               *explore.Chooser
	threads          []*thread
	cur              *thread
	event            chan struct{} // the running thread reports: it yielded / blocked / finished
	Points           int
	Deadlock         string
	PoolAlternatives bool
	panics           []string
}

// Run executes the bodies under the controlled scheduler. It returns the scheduler
// (deadlock report, number of points) after all threads finished or a deadlock.
func Run(ch *explore.Chooser, poolAlternatives bool, bodies []func()) *Sched {
	s := &Sched{ch: ch, event: make(chan struct{}), PoolAlternatives: poolAlternatives}
	for i := range bodies {
		s.threads = append(s.threads, &thread{id: i, resume: make(chan struct{})})
	}
	vsync.C = s
	vsync.Yield = func(what string) { s.point(what, nil) }
	defer func() { vsync.C, vsync.Yield = nil, nil }()
	for i, b := range bodies {
		t, body := s.threads[i], b
		go func() {
			<-t.resume
			defer func() {
				if r := recover(); r != nil {
					s.panics = append(s.panics, fmt.Sprintf("thread %d: %v", t.id, r))
				}
				t.done = true
				s.event <- struct{}{}
			}()
			body()
		}()
	}
	// the scheduler loop
	for {
		next := s.pick()
		if next == nil {
			break
		}
		s.cur = next
		next.resume <- struct{}{}
		<-s.event
	}
	return s
}

func (s *Sched) Panics() []string { return s.panics }

// pick chooses the thread to run next; nil when all are done or none is enabled.
func (s *Sched) pick() *thread {
	var enabled []*thread
	alive := 0
	curEnabled := false
	for _, t := range s.threads {
		if t.done {
			continue
		}
		alive++
		if t.enabled == nil || t.enabled() {
			enabled = append(enabled, t)
			if t == s.cur {
				curEnabled = true
			}
		}
	}
	if alive == 0 {
		return nil
	}
	if len(enabled) == 0 {
		var w []string
		for _, t := range s.threads {
			if !t.done {
				w = append(w, fmt.Sprintf("thread %d waits for %s", t.id, t.what))
			}
		}
		s.Deadlock = fmt.Sprint(w)
		return nil
	}
	// canonical order: the running thread first if still enabled, then ascending ids
	order := enabled
	cost := 0
	if curEnabled {
		order = []*thread{s.cur}
		for _, t := range enabled {
			if t != s.cur {
				order = append(order, t)
			}
		}
		cost = 1 // switching away from a runnable thread is a preemption
	}
	if len(order) == 1 {
		return order[0]
	}
	return order[s.ch.ChooseCost(len(order), cost)]
}

// point: the running thread stops here; it continues when the scheduler picks it
// again (and its enabledness predicate holds).
func (s *Sched) point(what string, enabled func() bool) {
	t := s.cur
	s.Points++
	t.enabled, t.what = enabled, what
	s.event <- struct{}{}
	<-t.resume
	t.enabled, t.what = nil, ""
}

func (s *Sched) me() int { return s.cur.id + 1 }

// ---------------------------------------------------------------- vsync.Controller

func (s *Sched) Lock(m *vsync.Mutex) {
	s.point("Mutex.Lock", func() bool { return m.Holder == 0 })
	m.Holder = s.me()
}

func (s *Sched) Unlock(m *vsync.Mutex) {
	s.point("Mutex.Unlock", nil)
	if m.Holder != s.me() {
		panic("vsync: unlock of a mutex not held by this thread")
	}
	m.Holder = 0
}

func (s *Sched) RWLock(m *vsync.RWMutex) {
	s.point("RWMutex.Lock", func() bool { return m.Writer == 0 && len(m.Readers) == 0 })
	m.Writer = s.me()
}

func (s *Sched) RWUnlock(m *vsync.RWMutex) {
	s.point("RWMutex.Unlock", nil)
	m.Writer = 0
}

func (s *Sched) RLock(m *vsync.RWMutex) {
	me := s.me()
	s.point("RWMutex.RLock", func() bool { return m.Writer == 0 })
	if m.Readers == nil {
		m.Readers = map[int]int{}
	}
	m.Readers[me]++
}

func (s *Sched) RUnlock(m *vsync.RWMutex) {
	s.point("RWMutex.RUnlock", nil)
	me := s.me()
	m.Readers[me]--
	if m.Readers[me] <= 0 {
		delete(m.Readers, me)
	}
}

func (s *Sched) OnceDo(o *vsync.Once, f func()) {
	s.point("Once.Do", func() bool { return o.Done || o.Running == 0 })
	if o.Done {
		return
	}
	o.Running = s.me()
	defer func() {
		o.Done = true
		o.Running = 0
	}()
	f()
}

func (s *Sched) PoolGet(p *vsync.Pool) any {
	s.point("Pool.Get", nil)
	n := len(p.Items)
	idx := n - 1
	if s.PoolAlternatives && n > 0 {
		c := s.ch.Choose(n + 1) // 0 = most recent, 1..n-1 = older, n = New()
		switch {
		case c == 0:
		case c == n:
			idx = n
		default:
			idx = n - 1 - c
		}
	}
	x := p.DefaultGet(idx)
	s.point("Pool.Get(after)", nil)
	return x
}

func (s *Sched) PoolPut(p *vsync.Pool, x any) {
	s.point("Pool.Put", nil)
	vsync.ScribbleBuffer(x)
	p.Items = append(p.Items, x)
	s.point("Pool.Put(after)", nil)
}
