// Package core: worker context, statistics, violations, evidence, known findings.
package core

import (
	"bufio"
	"crypto/sha1"
	"encoding/hex"
	"encoding/json"
	"fmt"
	"os"
	"regexp"
	"sort"
	"strings"
	"sync"
	"sync/atomic"
	"time"
)

// Violation is one failed oracle clause with the witness that replays it.
type Violation struct {
	Property string            `json:"property"`
	Clause   string            `json:"clause"`
	Entry    string            `json:"entry,omitempty"`
	Input    string            `json:"input"`               // printable form of the failing input / case
	InputHex string            `json:"input_hex,omitempty"` // exact bytes when Input is a byte string
	Witness  json.RawMessage   `json:"witness,omitempty"`   // structured case descriptor understood by the property's Replay
	Detail   string            `json:"detail"`
	Sig      map[string]string `json:"sig,omitempty"`
	GoTest   string            `json:"go_test,omitempty"`
	Count    int64             `json:"count,omitempty"` // how many cases shared this signature (first witness kept)
}

// SigKey is the de-duplication key of a violation.
func (v *Violation) SigKey() string {
	ks := make([]string, 0, len(v.Sig))
	for k := range v.Sig {
		ks = append(ks, k)
	}
	sort.Strings(ks)
	var b strings.Builder
	b.WriteString(v.Property + "|" + v.Clause + "|" + v.Entry)
	for _, k := range ks {
		b.WriteString("|" + k + "=" + v.Sig[k])
	}
	return b.String()
}

// Stats are the counters a worker measures.
type Stats struct {
	Evaluations int64            `json:"evaluations"`
	States      int64            `json:"states"`
	Transitions int64            `json:"transitions"`
	Traces      int64            `json:"traces"`
	Nontrivial  int64            `json:"nontrivial"`
	Classes     map[string]int64 `json:"classes"`
	Counters    map[string]int64 `json:"counters"`
	Samples     []any            `json:"samples"`
	Caps        []string         `json:"caps"`
	Notes       []string         `json:"notes"`
	Done        bool             `json:"done"`
}

// W is the per-worker context handed to a property's Run.
type W struct {
	Prop  string
	Tier  string
	Seed  int64
	Shard int
	Of    int
	Start time.Time
	// Budget is the soft run deadline; when exceeded the enumeration stops early
	// and the evidence says exhaustive:false (never a verdict).
	Budget time.Duration

	mu     sync.Mutex
	S      Stats
	viol   map[string]*Violation
	order  []string
	mark   *Mark
	capHit map[string]bool

	ResumeSet   bool
	ResumeAfter uint64
	caseStart   atomic.Int64
}

func NewW(prop, tier string, seed int64, shard, of int) *W {
	return &W{Prop: prop, Tier: tier, Seed: seed, Shard: shard, Of: of, Start: time.Now(),
		S:    Stats{Classes: map[string]int64{}, Counters: map[string]int64{}},
		viol: map[string]*Violation{}, capHit: map[string]bool{}}
}

func (w *W) Thorough() bool { return w.Tier == "thorough" }

// Mine reports whether case ordinal i belongs to this shard.
func (w *W) Mine(i int64) bool { return w.Of <= 1 || int(i%int64(w.Of)) == w.Shard }

func (w *W) Class(name string)          { w.S.Classes[name]++ }
func (w *W) Count(name string, n int64) { w.S.Counters[name] += n }

func (w *W) Sample(s any) {
	if len(w.S.Samples) < 4 {
		w.S.Samples = append(w.S.Samples, s)
	}
}

func (w *W) Cap(what string) {
	if !w.capHit[what] {
		w.capHit[what] = true
		w.S.Caps = append(w.S.Caps, what)
	}
}

func (w *W) Note(s string) { w.S.Notes = append(w.S.Notes, s) }

// OverBudget is polled by enumerations at coarse granularity.
func (w *W) OverBudget() bool {
	if w.Budget > 0 && time.Since(w.Start) > w.Budget {
		w.Cap(fmt.Sprintf("run deadline %s reached", w.Budget))
		return true
	}
	return false
}

// Violate records a violation; only the first witness per signature is kept.
func (w *W) Violate(v Violation) {
	v.Property = w.Prop
	k := v.SigKey()
	w.mu.Lock()
	defer w.mu.Unlock()
	if old, ok := w.viol[k]; ok {
		old.Count++
		return
	}
	v.Count = 1
	vv := v
	w.viol[k] = &vv
	w.order = append(w.order, k)
}

func (w *W) Violations() []*Violation {
	out := make([]*Violation, 0, len(w.order))
	for _, k := range w.order {
		out = append(out, w.viol[k])
	}
	return out
}

// ByteInput fills Input/InputHex from raw bytes.
func ByteInput(b []byte) (string, string) {
	return fmt.Sprintf("%q", b), hex.EncodeToString(b)
}

// WorkerResult is what a worker writes to its out file.
type WorkerResult struct {
	Stats      Stats        `json:"stats"`
	Violations []*Violation `json:"violations"`
}

func (w *W) WriteResult(path string) error {
	w.S.Done = true
	f, err := os.Create(path + ".tmp")
	if err != nil {
		return err
	}
	bw := bufio.NewWriter(f)
	enc := json.NewEncoder(bw)
	if err := enc.Encode(WorkerResult{Stats: w.S, Violations: w.Violations()}); err != nil {
		return err
	}
	bw.Flush()
	f.Close()
	return os.Rename(path+".tmp", path)
}

// ---------------------------------------------------------------- known findings

type KFMatch struct {
	Clause string            `json:"clause,omitempty"`
	Entry  string            `json:"entry,omitempty"`
	Input  string            `json:"input,omitempty"`
	Detail string            `json:"detail,omitempty"`
	Sig    map[string]string `json:"sig,omitempty"`
}

type KnownFinding struct {
	Property string  `json:"property"`
	ID       string  `json:"id"`
	What     string  `json:"what"`
	Match    KFMatch `json:"match"`
}

type KnownFindings struct {
	Findings []KnownFinding `json:"findings"`
	Fixed    []string       `json:"fixed"`
}

func LoadKnownFindings(path string) (*KnownFindings, error) {
	b, err := os.ReadFile(path)
	if err != nil {
		if os.IsNotExist(err) {
			return &KnownFindings{}, nil
		}
		return nil, err
	}
	var k KnownFindings
	if err := json.Unmarshal(b, &k); err != nil {
		return nil, fmt.Errorf("known_findings.json: %w", err)
	}
	return &k, nil
}

func reMatch(pat, s string) bool {
	if pat == "" {
		return true
	}
	re, err := regexp.Compile(pat)
	if err != nil {
		return false
	}
	return re.MatchString(s)
}

// Matches reports whether the finding covers the violation (conjunction of all given attributes).
func (k *KnownFinding) Matches(v *Violation) bool {
	if k.Property != v.Property {
		return false
	}
	m := k.Match
	if !reMatch(m.Clause, v.Clause) || !reMatch(m.Entry, v.Entry) || !reMatch(m.Input, v.Input) || !reMatch(m.Detail, v.Detail) {
		return false
	}
	for key, pat := range m.Sig {
		val, ok := v.Sig[key]
		if !ok || !reMatch(pat, val) {
			return false
		}
	}
	return true
}

// ---------------------------------------------------------------- evidence

type Evidence struct {
	PropertyID  string         `json:"property_id"`
	Tier        string         `json:"tier"`
	Seed        int64          `json:"seed"`
	Level       string         `json:"level"`
	Coverage    map[string]any `json:"coverage"`
	Assumptions []string       `json:"assumptions"`
	WallS       float64        `json:"wall_s"`
	Violations  int            `json:"violations"`
}

func WriteJSON(path string, v any) error {
	b, err := json.MarshalIndent(v, "", " ")
	if err != nil {
		return err
	}
	if err := os.WriteFile(path+".tmp", append(b, '\n'), 0o644); err != nil {
		return err
	}
	return os.Rename(path+".tmp", path)
}

func HashOf(s string) string {
	h := sha1.Sum([]byte(s))
	return hex.EncodeToString(h[:6])
}

// Merge adds b into a.
func (a *Stats) Merge(b *Stats) {
	a.Evaluations += b.Evaluations
	a.States += b.States
	a.Transitions += b.Transitions
	a.Traces += b.Traces
	a.Nontrivial += b.Nontrivial
	if a.Classes == nil {
		a.Classes = map[string]int64{}
	}
	if a.Counters == nil {
		a.Counters = map[string]int64{}
	}
	for k, v := range b.Classes {
		a.Classes[k] += v
	}
	for k, v := range b.Counters {
		a.Counters[k] += v
	}
	for _, s := range b.Samples {
		if len(a.Samples) < 8 {
			a.Samples = append(a.Samples, s)
		}
	}
	seen := map[string]bool{}
	for _, c := range a.Caps {
		seen[c] = true
	}
	for _, c := range b.Caps {
		if !seen[c] {
			a.Caps = append(a.Caps, c)
			seen[c] = true
		}
	}
	seenN := map[string]bool{}
	for _, c := range a.Notes {
		seenN[c] = true
	}
	for _, c := range b.Notes {
		if !seenN[c] {
			a.Notes = append(a.Notes, c)
			seenN[c] = true
		}
	}
}

// ---------------------------------------------------------------- case bracketing

// ResumeAfter: ordinals <= this value are skipped (set by the driver after a worker died).
// Begin marks the case about to run; it returns false when the case must be skipped.
func (w *W) Begin(ord uint64, desc []byte) bool {
	if w.ResumeSet && ord <= w.ResumeAfter {
		return false
	}
	w.mark.Set(ord, desc)
	w.caseStart.Store(time.Now().UnixNano())
	return true
}

// StartWatchdog kills the worker when one case runs longer than limit.
func (w *W) StartWatchdog(limit time.Duration) {
	go func() {
		for {
			time.Sleep(2 * time.Second)
			t := w.caseStart.Load()
			if t != 0 && time.Since(time.Unix(0, t)) > limit {
				fmt.Fprintln(os.Stderr, "VERIF-HANG: case exceeded", limit)
				os.Exit(3)
			}
		}
	}()
}

func (w *W) StopWatchdog() { w.caseStart.Store(0) }

// BuildDirName: the directory (under the verification root) that holds the binaries
// and scratch files of this run. Runs with a mutation patch use a directory of their
// own so that they can never be mixed up with checks of the real tree.
func BuildDirName() string {
	if d := os.Getenv("VERIF_BUILD"); d != "" {
		return d
	}
	return ".build"
}

// OutDir: where evidence/ and replays/ are written (the verification root, except for
// mutation runs).
func OutDir(root string) string {
	if d := os.Getenv("VERIF_OUT"); d != "" {
		return d
	}
	return root
}
