package core

import (
	"encoding/binary"
	"os"
	"syscall"
)

// Mark is a small shared-memory file in which a worker records the case it is
// about to execute, so that the driver can name the case when the worker process
// dies (stack overflow, out of memory, panic on a foreign goroutine).
type Mark struct {
	mem []byte
}

const markSize = 1 << 16

func OpenMark(path string) (*Mark, error) {
	f, err := os.OpenFile(path, os.O_RDWR|os.O_CREATE, 0o644)
	if err != nil {
		return nil, err
	}
	defer f.Close()
	if err := f.Truncate(markSize); err != nil {
		return nil, err
	}
	mem, err := syscall.Mmap(int(f.Fd()), 0, markSize, syscall.PROT_READ|syscall.PROT_WRITE, syscall.MAP_SHARED)
	if err != nil {
		return nil, err
	}
	return &Mark{mem: mem}, nil
}

// Set stores ordinal and description of the case about to run.
func (m *Mark) Set(ord uint64, desc []byte) {
	if m == nil {
		return
	}
	n := len(desc)
	if n > markSize-16 {
		n = markSize - 16
	}
	binary.LittleEndian.PutUint64(m.mem[0:], ord)
	binary.LittleEndian.PutUint32(m.mem[8:], uint32(n))
	copy(m.mem[16:], desc[:n])
}

// ReadMark reads a mark file written by a (dead) worker.
func ReadMark(path string) (ord uint64, desc []byte, ok bool) {
	b, err := os.ReadFile(path)
	if err != nil || len(b) < 16 {
		return 0, nil, false
	}
	ord = binary.LittleEndian.Uint64(b[0:])
	n := int(binary.LittleEndian.Uint32(b[8:]))
	if n > len(b)-16 {
		n = len(b) - 16
	}
	return ord, append([]byte(nil), b[16:16+n]...), true
}

func (w *W) SetMark(m *Mark) { w.mark = m }

// Mark records the case about to run (cheap: a memcpy into shared memory).
func (w *W) Mark(ord uint64, desc []byte) { w.mark.Set(ord, desc) }
