// Command racer: the free-running pass of C11 — the same harness bodies as the
// scheduler-controlled exploration, run by real goroutines with the real "sync"
// package under `go build -race`. The race detector reports to stderr; results are
// compared with the sequential references ("MISMATCH" lines, exit 1).
package main

import (
	"fmt"
	"os"
	"sync"

	"verifmc/props"
)

func main() {
	const goroutines, iterations = 16, 150
	mismatches := 0
	var mu sync.Mutex
	for _, h := range props.C11Harnesses(3) {
		// sequential references
		ref := make([]string, len(h.Threads))
		for i, b := range h.Threads {
			ref[i] = b(h.Setup())
		}
		for it := 0; it < iterations; it++ {
			shared := h.Setup()
			var wg sync.WaitGroup
			for g := 0; g < goroutines; g++ {
				wg.Add(1)
				go func(g int) {
					defer wg.Done()
					i := g % len(h.Threads)
					if got := h.Threads[i](shared); got != ref[i] {
						mu.Lock()
						mismatches++
						if mismatches <= 3 {
							fmt.Printf("MISMATCH %s thread %d: %.200s  vs sequential %.200s\n", h.Name, i, got, ref[i])
						}
						mu.Unlock()
					}
				}(g)
			}
			wg.Wait()
		}
	}
	fmt.Printf("race pass done: %d goroutines x %d iterations per harness, mismatches=%d\n", goroutines, iterations, mismatches)
	if mismatches > 0 {
		os.Exit(1)
	}
}
