package main

import (
	"bytes"
	"fmt"
	"go/ast"
	"go/format"
	"go/importer"
	"go/parser"
	"go/token"
	"go/types"
	"os"
	"path/filepath"
	"strconv"
	"strings"
)

const modPath = "github.com/jsightapi/jsight-schema-core"

// instrument rewrites, for the instrumented build only, every non-test file of the
// repository (read through the replacements collected so far, so that a mutation
// patch is instrumented too):
//   - import "sync"  ->  import sync "<module>/verifshim/vsync"
//   - import "sync/atomic"  ->  import atomic "<module>/verifshim/vatomic"
//   - for k, v := range m (m of map type, decided by go/types)  ->
//     for _, k := range venv.Keys(m, "file:line") { v, ok := m[k]; if !ok { continue }; ... }
func instrument(repo, outDir string, repl map[string]string) (sites int, files int, err error) {
	os.RemoveAll(outDir)
	if err := os.MkdirAll(outDir, 0o755); err != nil {
		return 0, 0, err
	}
	os.Chdir(repo)
	fset := token.NewFileSet()
	imp := importer.ForCompiler(fset, "source", nil)
	var dirs []string
	filepath.Walk(repo, func(p string, info os.FileInfo, err error) error {
		if err != nil {
			return nil
		}
		if info.IsDir() {
			rel, _ := filepath.Rel(repo, p)
			if strings.HasPrefix(rel, ".git") || strings.Contains(rel, "internal/cmd") || strings.Contains(rel, "mocks") || strings.HasPrefix(rel, "verifshim") || strings.HasPrefix(rel, "testdata") {
				return filepath.SkipDir
			}
			dirs = append(dirs, p)
		}
		return nil
	})
	n := 0
	for _, d := range dirs {
		ents, _ := os.ReadDir(d)
		var astFiles []*ast.File
		var names []string
		for _, e := range ents {
			if e.IsDir() || !strings.HasSuffix(e.Name(), ".go") || strings.HasSuffix(e.Name(), "_test.go") {
				continue
			}
			full := filepath.Join(d, e.Name())
			src := full
			if r, ok := repl[full]; ok {
				src = r
			}
			b, rerr := os.ReadFile(src)
			if rerr != nil {
				return 0, 0, rerr
			}
			if bytes.Contains(b, []byte("//go:build verif")) {
				continue
			}
			f, perr := parser.ParseFile(fset, full, b, parser.ParseComments)
			if perr != nil {
				return 0, 0, perr
			}
			astFiles = append(astFiles, f)
			names = append(names, full)
		}
		if len(astFiles) == 0 {
			continue
		}
		info := &types.Info{Types: map[ast.Expr]types.TypeAndValue{}}
		conf := types.Config{Importer: imp, Error: func(error) {}}
		rel, _ := filepath.Rel(repo, d)
		pkgPath := modPath
		if rel != "." {
			pkgPath += "/" + filepath.ToSlash(rel)
		}
		conf.Check(pkgPath, fset, astFiles, info)
		for i, f := range astFiles {
			changed := false
			// (1) sync import
			for _, is := range f.Imports {
				if is.Path.Value == `"sync"` {
					is.Path.Value = strconv.Quote(modPath + "/verifshim/vsync")
					if is.Name == nil {
						is.Name = ast.NewIdent("sync")
					}
					changed = true
				}
				if is.Path.Value == `"sync/atomic"` {
					is.Path.Value = strconv.Quote(modPath + "/verifshim/vatomic")
					if is.Name == nil {
						is.Name = ast.NewIdent("atomic")
					}
					changed = true
				}
			}
			// (2) map ranges
			usedVenv := false
			rewriteStmt := func(s ast.Stmt) ast.Stmt {
				rs, ok := s.(*ast.RangeStmt)
				if !ok {
					return s
				}
				tv, ok := info.Types[rs.X]
				if !ok || tv.Type == nil {
					return s
				}
				if _, isMap := tv.Type.Underlying().(*types.Map); !isMap {
					return s
				}
				n++
				changed, usedVenv = true, true
				site := fmt.Sprintf("%s:%d", filepath.ToSlash(strings.TrimPrefix(names[i], repo+"/")), fset.Position(rs.Pos()).Line)
				mID := ast.NewIdent(fmt.Sprintf("verifM%d", n))
				kID := ast.NewIdent(fmt.Sprintf("verifK%d", n))
				vID := ast.NewIdent(fmt.Sprintf("verifV%d", n))
				okID := ast.NewIdent(fmt.Sprintf("verifOK%d", n))
				assignM := &ast.AssignStmt{Lhs: []ast.Expr{mID}, Tok: token.DEFINE, Rhs: []ast.Expr{rs.X}}
				pre := []ast.Stmt{
					&ast.AssignStmt{Lhs: []ast.Expr{vID, okID}, Tok: token.DEFINE, Rhs: []ast.Expr{&ast.IndexExpr{X: mID, Index: kID}}},
					&ast.IfStmt{Cond: &ast.UnaryExpr{Op: token.NOT, X: okID}, Body: &ast.BlockStmt{List: []ast.Stmt{&ast.BranchStmt{Tok: token.CONTINUE}}}},
					&ast.AssignStmt{Lhs: []ast.Expr{ast.NewIdent("_")}, Tok: token.ASSIGN, Rhs: []ast.Expr{vID}},
				}
				bind := func(target ast.Expr, src *ast.Ident) {
					if target == nil {
						return
					}
					if id, ok := target.(*ast.Ident); ok && id.Name == "_" {
						return
					}
					pre = append(pre, &ast.AssignStmt{Lhs: []ast.Expr{target}, Tok: rs.Tok, Rhs: []ast.Expr{src}})
					if rs.Tok == token.DEFINE {
						pre = append(pre, &ast.AssignStmt{Lhs: []ast.Expr{ast.NewIdent("_")}, Tok: token.ASSIGN, Rhs: []ast.Expr{target}})
					}
				}
				bind(rs.Key, kID)
				bind(rs.Value, vID)
				body := &ast.BlockStmt{List: append(pre, rs.Body.List...)}
				loop := &ast.RangeStmt{Key: ast.NewIdent("_"), Value: kID, Tok: token.DEFINE,
					X:    &ast.CallExpr{Fun: &ast.SelectorExpr{X: ast.NewIdent("verifvenv"), Sel: ast.NewIdent("Keys")}, Args: []ast.Expr{mID, &ast.BasicLit{Kind: token.STRING, Value: strconv.Quote(site)}}},
					Body: body}
				return &ast.BlockStmt{List: []ast.Stmt{assignM, loop}}
			}
			var blocks []*ast.BlockStmt
			var cases []*ast.CaseClause
			var comms []*ast.CommClause
			ast.Inspect(f, func(nd ast.Node) bool {
				switch b := nd.(type) {
				case *ast.BlockStmt:
					blocks = append(blocks, b)
				case *ast.CaseClause:
					cases = append(cases, b)
				case *ast.CommClause:
					comms = append(comms, b)
				}
				return true
			})
			for j := len(blocks) - 1; j >= 0; j-- {
				for k, st := range blocks[j].List {
					blocks[j].List[k] = rewriteStmt(st)
				}
			}
			for _, c := range cases {
				for k, st := range c.Body {
					c.Body[k] = rewriteStmt(st)
				}
			}
			for _, c := range comms {
				for k, st := range c.Body {
					c.Body[k] = rewriteStmt(st)
				}
			}
			if !changed {
				continue
			}
			if usedVenv {
				f.Decls = append([]ast.Decl{&ast.GenDecl{Tok: token.IMPORT, Specs: []ast.Spec{&ast.ImportSpec{Name: ast.NewIdent("verifvenv"), Path: &ast.BasicLit{Kind: token.STRING, Value: strconv.Quote(modPath + "/verifshim/venv")}}}}}, f.Decls...)
			}
			var buf bytes.Buffer
			if ferr := format.Node(&buf, fset, f); ferr != nil {
				return 0, 0, fmt.Errorf("format %s: %w", names[i], ferr)
			}
			o := filepath.Join(outDir, strings.ReplaceAll(strings.TrimPrefix(names[i], repo+"/"), "/", "__"))
			if werr := os.WriteFile(o, buf.Bytes(), 0o644); werr != nil {
				return 0, 0, werr
			}
			repl[names[i]] = o
			files++
		}
	}
	return n, files, nil
}
