// Command mkoverlay writes the `go build -overlay` file used by every check.
// It never touches /repo: hook sources under /verif/hooks/<pkg path>/x.go are ADDED
// to the repository package <pkg path> as zz_verif_x.go (build tag `verif`),
// directories under hooks/verifshim become virtual packages of the repo module,
// and — with -mut — a patch is applied to scratch copies of the files it touches.
package main

import (
	"encoding/json"
	"flag"
	"fmt"
	"os"
	"os/exec"
	"path/filepath"
	"strings"
)

func main() {
	repo := flag.String("repo", "/repo", "")
	hooks := flag.String("hooks", "/verif/hooks", "")
	out := flag.String("out", "/verif/.build/overlay.json", "")
	mut := flag.String("mut", "", "unified diff (paths relative to the repo root) applied to scratch copies")
	scratch := flag.String("scratch", "/verif/.build/mut", "")
	extra := flag.String("merge", "", "another overlay JSON whose entries are merged in (later wins)")
	inst := flag.String("inst", "", "directory for instrumented copies: rewrite \"sync\" imports to verifshim/vsync and every range over a map to venv.Keys")
	flag.Parse()
	repl := map[string]string{}
	err := filepath.Walk(*hooks, func(p string, info os.FileInfo, err error) error {
		if err != nil || info.IsDir() || !strings.HasSuffix(p, ".go") {
			return err
		}
		rel, _ := filepath.Rel(*hooks, p)
		dir, base := filepath.Split(rel)
		var target string
		if strings.HasPrefix(rel, "verifshim/") {
			target = filepath.Join(*repo, rel)
		} else {
			target = filepath.Join(*repo, dir, "zz_verif_"+base)
		}
		repl[target] = p
		return nil
	})
	if err != nil {
		fmt.Fprintln(os.Stderr, "mkoverlay:", err)
		os.Exit(2)
	}
	if *mut != "" {
		os.RemoveAll(*scratch)
		os.MkdirAll(*scratch, 0o755)
		files, err := patchedFiles(*mut)
		if err != nil {
			fmt.Fprintln(os.Stderr, "mkoverlay:", err)
			os.Exit(2)
		}
		for _, f := range files {
			dst := filepath.Join(*scratch, f)
			os.MkdirAll(filepath.Dir(dst), 0o755)
			b, err := os.ReadFile(filepath.Join(*repo, f))
			if err == nil {
				os.WriteFile(dst, b, 0o644)
			}
		}
		abs, _ := filepath.Abs(*mut)
		cmd := exec.Command("patch", "-p1", "--no-backup-if-mismatch", "-i", abs)
		cmd.Dir = *scratch
		if outb, err := cmd.CombinedOutput(); err != nil {
			fmt.Fprintf(os.Stderr, "mkoverlay: patch failed: %v\n%s", err, outb)
			os.Exit(2)
		}
		for _, f := range files {
			repl[filepath.Join(*repo, f)] = filepath.Join(*scratch, f)
		}
	}
	if *extra != "" {
		b, err := os.ReadFile(*extra)
		if err == nil {
			var o struct{ Replace map[string]string }
			if json.Unmarshal(b, &o) == nil {
				for k, v := range o.Replace {
					repl[k] = v
				}
			}
		}
	}
	if *inst != "" {
		n, files, err := instrument(*repo, *inst, repl)
		if err != nil {
			fmt.Fprintln(os.Stderr, "mkoverlay: instrument:", err)
			os.Exit(2)
		}
		fmt.Printf("instrumented: %d map-range sites, %d files rewritten\n", n, files)
	}
	b, _ := json.MarshalIndent(map[string]any{"Replace": repl}, "", " ")
	os.MkdirAll(filepath.Dir(*out), 0o755)
	if err := os.WriteFile(*out, b, 0o644); err != nil {
		fmt.Fprintln(os.Stderr, "mkoverlay:", err)
		os.Exit(2)
	}
}

func patchedFiles(patch string) ([]string, error) {
	b, err := os.ReadFile(patch)
	if err != nil {
		return nil, err
	}
	seen := map[string]bool{}
	var out []string
	for _, l := range strings.Split(string(b), "\n") {
		if strings.HasPrefix(l, "+++ ") || strings.HasPrefix(l, "--- ") {
			f := strings.Fields(l[4:])
			if len(f) == 0 || f[0] == "/dev/null" {
				continue
			}
			p := f[0]
			if strings.HasPrefix(p, "a/") || strings.HasPrefix(p, "b/") {
				p = p[2:]
			}
			if !seen[p] {
				seen[p] = true
				out = append(out, p)
			}
		}
	}
	return out, nil
}
