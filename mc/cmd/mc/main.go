// Command mc: driver / worker / replay for the /verif model-checking machinery.
package main

import (
	"bytes"
	"encoding/json"
	"flag"
	"fmt"
	"os"
	"os/exec"
	"path/filepath"
	"runtime"
	"runtime/debug"
	"sort"
	"strconv"
	"strings"
	"sync"
	"time"

	"verifmc/core"
	"verifmc/props"
)

func verifDir() string {
	if d := os.Getenv("VERIF_DIR"); d != "" {
		return d
	}
	return "/verif"
}

func main() {
	if len(os.Args) < 2 {
		fmt.Fprintln(os.Stderr, "usage: mc check|worker|replay|list ...")
		os.Exit(2)
	}
	switch os.Args[1] {
	case "list":
		for _, id := range props.IDs() {
			fmt.Println(id)
		}
	case "check":
		os.Exit(cmdCheck(os.Args[2:]))
	case "worker":
		os.Exit(cmdWorker(os.Args[2:]))
	case "replay":
		os.Exit(cmdReplay(os.Args[2:]))
	case "c10oneshot":
		props.C10OneShot(os.Args[2])
	case "c09digest":
		sh, _ := strconv.Atoi(os.Args[2])
		of, _ := strconv.Atoi(os.Args[3])
		props.C09Digest(sh, of, os.Args[4])
	default:
		fmt.Fprintln(os.Stderr, "unknown command", os.Args[1])
		os.Exit(2)
	}
}

func seedFromEnv() int64 {
	if s := os.Getenv("VERIF_SEED"); s != "" {
		if n, err := strconv.ParseInt(s, 10, 64); err == nil {
			return n
		}
	}
	return 1
}

// ------------------------------------------------------------------ worker

func cmdWorker(args []string) int {
	fs := flag.NewFlagSet("worker", flag.ExitOnError)
	tier := fs.String("tier", "quick", "")
	shard := fs.Int("shard", 0, "")
	of := fs.Int("of", 1, "")
	out := fs.String("out", "", "")
	mark := fs.String("mark", "", "")
	resume := fs.Int64("resume-after", -1, "")
	budget := fs.Duration("budget", 0, "")
	id := args[0]
	fs.Parse(args[1:])
	p := props.Registry[id]
	if p == nil {
		fmt.Fprintln(os.Stderr, "unknown property", id)
		return 2
	}
	debug.SetMaxStack(64 << 20)
	w := core.NewW(id, *tier, seedFromEnv(), *shard, *of)
	w.Budget = *budget
	if *mark != "" {
		m, err := core.OpenMark(*mark)
		if err != nil {
			fmt.Fprintln(os.Stderr, "mark:", err)
			return 2
		}
		w.SetMark(m)
	}
	if *resume >= 0 {
		w.ResumeSet = true
		w.ResumeAfter = uint64(*resume)
	}
	w.StartWatchdog(120 * time.Second)
	p.Run(w)
	w.StopWatchdog()
	if err := w.WriteResult(*out); err != nil {
		fmt.Fprintln(os.Stderr, "write result:", err)
		return 2
	}
	return 0
}

// ------------------------------------------------------------------ check (driver)

type shardOutcome struct {
	res     []core.WorkerResult
	aborts  []*core.Violation
	engine  []string
	partial bool
}

func runShard(self, id, tier string, shard, of int, dir string, budget time.Duration, p *props.Prop) shardOutcome {
	var so shardOutcome
	resume := int64(-1)
	for attempt := 0; attempt < 25; attempt++ {
		out := filepath.Join(dir, fmt.Sprintf("shard-%d-%d.json", shard, attempt))
		mark := filepath.Join(dir, fmt.Sprintf("mark-%d", shard))
		os.Remove(out)
		os.Remove(mark)
		args := []string{"worker", id, "--tier", tier, "--shard", strconv.Itoa(shard), "--of", strconv.Itoa(of), "--out", out, "--mark", mark}
		if resume >= 0 {
			args = append(args, "--resume-after", strconv.FormatInt(resume, 10))
		}
		if budget > 0 {
			args = append(args, "--budget", budget.String())
		}
		// address-space limit: an allocation blow-up kills this worker, not the sandbox
		cmd := exec.Command("bash", append([]string{"-c", `ulimit -v 8388608; exec "$0" "$@"`, self}, args...)...)
		var stderr bytes.Buffer
		cmd.Stderr = &stderr
		cmd.Stdout = &stderr
		mp := 2
		if p.MaxProcs > 0 {
			mp = p.MaxProcs
		}
		cmd.Env = append(os.Environ(), fmt.Sprintf("GOMAXPROCS=%d", mp), "GOTRACEBACK=single")
		err := cmd.Run()
		if err == nil {
			b, rerr := os.ReadFile(out)
			var r core.WorkerResult
			if rerr != nil || json.Unmarshal(b, &r) != nil {
				so.engine = append(so.engine, fmt.Sprintf("shard %d: unreadable result", shard))
				return so
			}
			so.res = append(so.res, r)
			return so
		}
		// the worker died
		tail := stderr.String()
		if len(tail) > 3000 {
			tail = tail[:1500] + "\n...\n" + tail[len(tail)-1500:]
		}
		how := "process-abort"
		if strings.Contains(tail, "VERIF-HANG") {
			how = "hang"
		}
		ord, desc, ok := core.ReadMark(mark)
		if !ok || (ord == 0 && len(desc) == 0) || (resume >= 0 && int64(ord) <= resume) {
			so.engine = append(so.engine, fmt.Sprintf("shard %d: worker died outside a marked case: %v\n%s", shard, err, tail))
			return so
		}
		so.partial = true
		if p.OnAbort != nil {
			if v := p.OnAbort(desc, how); v != nil {
				v.Property = id
				if v.Sig == nil {
					v.Sig = map[string]string{}
				}
				v.Sig["abort"] = firstFatalLine(tail)
				v.Detail += " | " + firstFatalLine(tail)
				v.Count = 1
				so.aborts = append(so.aborts, v)
			}
		}
		resume = int64(ord)
	}
	so.engine = append(so.engine, fmt.Sprintf("shard %d: too many worker deaths", shard))
	return so
}

func firstFatalLine(s string) string {
	for _, l := range strings.Split(s, "\n") {
		if strings.HasPrefix(l, "fatal error:") || strings.HasPrefix(l, "panic:") || strings.HasPrefix(l, "runtime: goroutine stack exceeds") || strings.HasPrefix(l, "VERIF-HANG") {
			return strings.TrimSpace(l)
		}
	}
	return "worker died"
}

func cmdCheck(args []string) int {
	fs := flag.NewFlagSet("check", flag.ExitOnError)
	tier := fs.String("tier", "", "")
	budgetFlag := fs.Duration("budget", 0, "")
	id := args[0]
	fs.Parse(args[1:])
	if *tier == "" {
		*tier = os.Getenv("VERIF_TIER")
	}
	if *tier != "thorough" {
		*tier = "quick"
	}
	p := props.Registry[id]
	if p == nil {
		fmt.Fprintln(os.Stderr, "ENGINE-ERROR: unknown property", id)
		return 2
	}
	t0 := time.Now()
	vd := verifDir()
	self, _ := os.Executable()
	dir := filepath.Join(vd, core.BuildDirName(), "run", id+"-"+*tier)
	os.RemoveAll(dir)
	os.MkdirAll(dir, 0o755)
	od := core.OutDir(vd)
	os.MkdirAll(filepath.Join(od, "evidence"), 0o755)
	os.MkdirAll(filepath.Join(od, "replays"), 0o755)
	if old, _ := filepath.Glob(filepath.Join(od, "replays", id+"-*.json")); len(old) > 0 {
		for _, f := range old {
			os.Remove(f)
		}
	}

	n := runtime.NumCPU()
	if p.Shards != nil {
		n = p.Shards(*tier)
	}
	budget := *budgetFlag
	if budget == 0 {
		if *tier == "quick" {
			budget = 8 * time.Minute
		} else {
			budget = 100 * time.Minute
		}
	}
	outs := make([]shardOutcome, n)
	var wg sync.WaitGroup
	sem := make(chan struct{}, runtime.NumCPU())
	for i := 0; i < n; i++ {
		wg.Add(1)
		go func(i int) {
			defer wg.Done()
			sem <- struct{}{}
			defer func() { <-sem }()
			outs[i] = runShard(self, id, *tier, i, n, dir, budget, p)
		}(i)
	}
	wg.Wait()

	var total core.Stats
	var viols []*core.Violation
	var engineErrs []string
	partial := false
	for _, o := range outs {
		for i := range o.res {
			total.Merge(&o.res[i].Stats)
			viols = append(viols, o.res[i].Violations...)
		}
		viols = append(viols, o.aborts...)
		engineErrs = append(engineErrs, o.engine...)
		partial = partial || o.partial
	}
	// merge violations with identical signatures across shards
	bySig := map[string]*core.Violation{}
	var order []string
	for _, v := range viols {
		k := v.SigKey()
		if old, ok := bySig[k]; ok {
			old.Count += v.Count
			if len(v.Input) < len(old.Input) {
				c := old.Count
				*old = *v
				old.Count = c
			}
			continue
		}
		bySig[k] = v
		order = append(order, k)
	}
	sort.Strings(order)

	kf, err := core.LoadKnownFindings(filepath.Join(vd, "known_findings.json"))
	if err != nil {
		fmt.Println("ENGINE-ERROR:", err)
		return 2
	}
	kfHits := map[string]int64{}
	kfSample := map[string]string{}
	var fresh []*core.Violation
	for _, k := range order {
		v := bySig[k]
		matched := false
		for i := range kf.Findings {
			f := &kf.Findings[i]
			if f.Matches(v) {
				kfHits[f.ID] += v.Count
				if _, ok := kfSample[f.ID]; !ok {
					kfSample[f.ID] = v.Input
				}
				matched = true
				break
			}
		}
		if strings.HasPrefix(v.Clause, "ENGINE-") {
			engineErrs = append(engineErrs, fmt.Sprintf("%s %s: %s", v.Clause, v.Input, v.Detail))
			continue
		}
		if !matched {
			fresh = append(fresh, v)
		}
	}

	// confirm fresh violations by replaying them in a new process (5x); a witness that
	// does not reproduce is an engine error, never a VIOLATION.
	var confirmed []*core.Violation
	var paths []string
	for i, v := range fresh {
		if i >= 40 {
			break
		}
		path := filepath.Join(od, "replays", fmt.Sprintf("%s-%s.json", id, core.HashOf(v.SigKey()+v.Input)))
		core.WriteJSON(path, v)
		if _, aborted := v.Sig["abort"]; p.Replay != nil && !aborted {
			cmd := exec.Command(self, "replay", path, "--n", "5", "--quiet")
			outb, err := cmd.CombinedOutput()
			if err != nil && !strings.Contains(string(outb), "REPRODUCED") {
				engineErrs = append(engineErrs, fmt.Sprintf("witness %s did not reproduce in a fresh process: %s", path, strings.TrimSpace(string(outb))))
				continue
			}
		}
		confirmed = append(confirmed, v)
		paths = append(paths, path)
	}

	exhaustive := len(total.Caps) == 0 && len(engineErrs) == 0
	cov := map[string]any{
		"evaluations":                   total.Evaluations,
		"distinct_nontrivial":           total.Nontrivial,
		"rule":                          p.Rule,
		"samples":                       total.Samples,
		"states":                        total.States,
		"transitions":                   total.Transitions,
		"traces_validated_against_impl": total.Traces,
		"exhaustive":                    exhaustive,
		"outcome_classes":               total.Classes,
		"counters":                      total.Counters,
		"caps_hit":                      total.Caps,
		"notes":                         total.Notes,
		"known_finding_hits":            kfHits,
		"shards":                        n,
		"worker_died_and_was_resumed":   partial,
		"distinct_violation_signatures": len(order),
	}
	if p.Bounds != nil {
		cov["bounds"] = p.Bounds(*tier)
	}
	if total.Samples == nil {
		cov["samples"] = []any{}
	}
	ev := core.Evidence{PropertyID: id, Tier: *tier, Seed: seedFromEnv(), Level: p.Level, Coverage: cov,
		Assumptions: p.Assumptions, WallS: time.Since(t0).Seconds(), Violations: len(confirmed)}
	if err := core.WriteJSON(filepath.Join(od, "evidence", id+".json"), ev); err != nil {
		fmt.Println("ENGINE-ERROR: evidence:", err)
		return 2
	}

	fmt.Printf("%s %s: evaluations=%d states=%d transitions=%d nontrivial=%d exhaustive=%v wall=%.1fs classes=%d\n",
		id, *tier, total.Evaluations, total.States, total.Transitions, total.Nontrivial, exhaustive, time.Since(t0).Seconds(), len(total.Classes))
	for _, c := range total.Caps {
		fmt.Println("CAP:", c)
	}
	for i := range kf.Findings {
		f := &kf.Findings[i]
		if kfHits[f.ID] > 0 {
			fmt.Printf("KNOWN-FINDING: property=%s %s: %s (cases=%d, e.g. %s)\n", id, f.ID, f.What, kfHits[f.ID], kfSample[f.ID])
		}
	}
	for _, e := range engineErrs {
		fmt.Println("ENGINE-ERROR:", e)
	}
	for i, v := range confirmed {
		fmt.Printf("  [%s/%s] %s -- %s (x%d)\n", v.Clause, v.Entry, v.Input, v.Detail, v.Count)
		fmt.Printf("VIOLATION property=%s replay=%s\n", id, paths[i])
	}
	if len(fresh) > len(confirmed)+len(engineErrs) {
		fmt.Printf("(%d further violation signatures not printed)\n", len(fresh)-len(confirmed))
	}
	if len(confirmed) > 0 {
		return 1
	}
	if len(engineErrs) > 0 {
		return 2
	}
	return 0
}

// ------------------------------------------------------------------ replay

func cmdReplay(args []string) int {
	fs := flag.NewFlagSet("replay", flag.ExitOnError)
	n := fs.Int("n", 1, "")
	quiet := fs.Bool("quiet", false, "")
	path := args[0]
	fs.Parse(args[1:])
	b, err := os.ReadFile(path)
	if err != nil {
		fmt.Println("ENGINE-ERROR:", err)
		return 2
	}
	var v core.Violation
	if err := json.Unmarshal(b, &v); err != nil {
		fmt.Println("ENGINE-ERROR:", err)
		return 2
	}
	p := props.Registry[v.Property]
	if p == nil || p.Replay == nil {
		fmt.Println("ENGINE-ERROR: no replay for", v.Property)
		return 2
	}
	debug.SetMaxStack(64 << 20)
	hits := 0
	for i := 0; i < *n; i++ {
		w := core.NewW(v.Property, "quick", seedFromEnv(), 0, 1)
		p.Replay(w, &v)
		found := false
		for _, nv := range w.Violations() {
			if nv.Clause == v.Clause {
				found = true
				if !*quiet && i == 0 {
					fmt.Printf("[%s/%s] %s -- %s\n", nv.Clause, nv.Entry, nv.Input, nv.Detail)
				}
			}
		}
		if found {
			hits++
		}
	}
	if hits == *n {
		fmt.Printf("REPRODUCED %d/%d\n", hits, *n)
		fmt.Printf("VIOLATION property=%s replay=%s\n", v.Property, path)
		return 1
	}
	fmt.Printf("not reproduced (%d/%d)\n", hits, *n)
	return 0
}
