// Package seq: E-SEQ — bounded exhaustive enumeration of token strings (DFS,
// simplest token first) with optional subtree pruning and deterministic sharding.
package seq

import "verifmc/core"

type Enum struct {
	Tokens [][]byte
	N      int // max tokens
	W      *core.W
	// ShardDepth: subtrees rooted at this depth are dealt to shards round-robin
	// (nodes above it are visited by every shard with own=false except shard 0).
	ShardDepth int
	Nodes      int64 // nodes visited with own=true
	stop       bool
	buf        []byte
	lens       []int
}

// Visit is called for every string; ntok = number of tokens; own = this shard is
// responsible for checking/counting the node. Return true to skip all extensions.
type Visit func(s []byte, ntok int, own bool) (prune bool)

func (e *Enum) Run(visit Visit) {
	if e.ShardDepth == 0 {
		e.ShardDepth = 2
	}
	e.buf = e.buf[:0]
	e.dfs(visit, 0, 0, true)
}

func (e *Enum) dfs(visit Visit, depth int, idx int64, own bool) {
	if e.stop {
		return
	}
	mine := own
	if depth < e.ShardDepth {
		mine = e.W.Shard == 0
	}
	if mine {
		e.Nodes++
		if e.Nodes&0xfff == 0 && e.W.OverBudget() {
			e.stop = true
			return
		}
	}
	if visit(e.buf, depth, mine) {
		return
	}
	if depth == e.N {
		return
	}
	T := int64(len(e.Tokens))
	for i, t := range e.Tokens {
		cidx := idx*T + int64(i)
		cown := own
		if depth+1 == e.ShardDepth {
			cown = e.W.Mine(cidx)
			if !cown {
				continue
			}
		}
		l := len(e.buf)
		e.buf = append(e.buf, t...)
		e.dfs(visit, depth+1, cidx, cown)
		e.buf = e.buf[:l]
	}
}
