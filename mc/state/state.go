// Package state: E-STATE — explicit-state breadth-first search over the abstract
// states of a real scanner. A state is represented by the shortest input reaching
// it; successors are obtained by running a fresh scanner on rep+byte.
package state

import (
	"fmt"

	"verifmc/core"
)

type Search struct {
	W        *core.W
	Name     string
	Symbols  []byte
	MaxDepth int // bound on the probe's depth measure; deeper keys are frontier cuts
	MaxLen   int // safety bound on representative length
	// MaxStates (default 6 M): the search stops with a reported cap instead of
	// exhausting memory when the key graph turns out larger than expected.
	MaxStates int
	// Key runs a fresh scanner over the prefix (no end-of-input handling) and returns
	// the canonical abstract state.
	Key func(prefix []byte) (key string, depth int, dead bool)
	// Check evaluates the property's clause bundle on one concrete input (which is
	// thereby also the end-of-input transition of the state it reaches).
	Check func(in []byte)
	// Complete (optional) extends an input to a text the REFERENCE accepts (nil if it
	// has none); it is checked next to the input itself, so an implementation that
	// wrongly dies on a byte meets a document it must accept.
	Complete func(in []byte) []byte
	// Verdict (optional) is a cheap class used by the bisimulation audit.
	Verdict func(in []byte) string

	States, Transitions, Cuts, DeadEdges int64
	AuditedKeys, AuditPairs              int64
	Completions                          int64
}

type rep struct {
	prim []byte
	alts [][]byte
}

// Run performs the search. Every shard computes the complete key graph (cheap);
// the expensive Check bundle of transition number t is evaluated by shard t mod Of.
func (s *Search) Run() {
	w := s.W
	seen := map[string]*rep{}
	k0, _, dead0 := s.Key(nil)
	if dead0 {
		w.Violate(core.Violation{Clause: "ENGINE-probe", Input: "", Detail: s.Name + ": probe dead on empty input"})
		return
	}
	seen[k0] = &rep{prim: []byte{}}
	order := []string{k0}
	frontier := [][]byte{{}}
	if w.Shard == 0 {
		s.Check([]byte{})
	}
	var t int64
	maxStates := s.MaxStates
	if maxStates == 0 {
		maxStates = 6_000_000
	}
	for len(frontier) > 0 {
		if len(seen) > maxStates {
			w.Cap(fmt.Sprintf("%s: state search stopped at %d states (memory bound); deeper levels not explored", s.Name, len(seen)))
			break
		}
		var next [][]byte
		for _, pre := range frontier {
			if w.OverBudget() {
				w.Cap(s.Name + ": state search stopped by run deadline")
				frontier = nil
				next = nil
				break
			}
			for _, b := range s.Symbols {
				in := make([]byte, len(pre)+1)
				copy(in, pre)
				in[len(pre)] = b
				t++
				if w.Mine(t) {
					s.Check(in)
					if s.Complete != nil {
						if c := s.Complete(in); c != nil {
							s.Completions++
							s.Check(c)
						}
					}
				}
				k, d, dead := s.Key(in)
				if dead {
					s.DeadEdges++
					continue
				}
				if d > s.MaxDepth || len(in) > s.MaxLen {
					s.Cuts++
					continue
				}
				r, ok := seen[k]
				if !ok {
					seen[k] = &rep{prim: in}
					order = append(order, k)
					next = append(next, in)
				} else if len(r.alts) < 2 {
					r.alts = append(r.alts, in)
				}
			}
		}
		frontier = next
	}
	s.States = int64(len(seen))
	s.Transitions = t
	// bisimulation audit: representatives of the same key must have the same
	// successor keys and verdict classes for every symbol.
	var i int64
	for _, k := range order {
		r := seen[k]
		if len(r.alts) == 0 {
			continue
		}
		i++
		if !w.Mine(i) {
			continue
		}
		s.AuditedKeys++
		for _, a := range r.alts {
			for _, b := range s.Symbols {
				p1 := append(append([]byte{}, r.prim...), b)
				p2 := append(append([]byte{}, a...), b)
				k1, _, d1 := s.Key(p1)
				k2, _, d2 := s.Key(p2)
				s.AuditPairs++
				bad := d1 != d2 || (!d1 && k1 != k2)
				if !bad && s.Verdict != nil && s.Verdict(p1) != s.Verdict(p2) {
					bad = true
				}
				if bad {
					w.Violate(core.Violation{Clause: "ENGINE-abstraction-unsound", Entry: s.Name,
						Input:  fmt.Sprintf("%q vs %q then %q", r.prim, a, b),
						Detail: fmt.Sprintf("same key %q but different futures: %q/%v vs %q/%v", k, k1, d1, k2, d2)})
					return
				}
			}
		}
	}
	if w.Shard == 0 {
		w.S.States += s.States
		w.Count(s.Name+".states", s.States)
		w.Count(s.Name+".transitions", s.Transitions)
		w.Count(s.Name+".frontier_cuts", s.Cuts)
		w.Count(s.Name+".dead_edges", s.DeadEdges)
	}
	if s.Complete != nil {
		w.Count(s.Name+".reference_completions_checked", s.Completions)
	}
	w.Count(s.Name+".bisimulation_audit_keys", s.AuditedKeys)
	w.Count(s.Name+".bisimulation_audit_pairs", s.AuditPairs)
}
