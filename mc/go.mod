module verifmc

go 1.21

require github.com/jsightapi/jsight-schema-core v0.0.0

require (
	github.com/lucasjones/reggen v0.0.0-20200904144131-37ba4fa293bb // indirect
	golang.org/x/text v0.14.0 // indirect
)

replace github.com/jsightapi/jsight-schema-core => /repo
