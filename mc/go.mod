module verifmc

go 1.21

require github.com/jsightapi/jsight-schema-core v0.0.0

replace github.com/jsightapi/jsight-schema-core => /repo
