package gen

import (
	"fmt"
	"strings"
)

// SNode is one example element of a schema model.
type SNode struct {
	Kind  byte     `json:"kind"`            // 'l' literal, 'o' object, 'a' array, 'r' reference shortcut
	Lit   string   `json:"lit,omitempty"`   // literal source text, or the reference text (`@a`, `@a | @b`)
	Keys  []string `json:"keys,omitempty"`  // source key text: `"k"` or `@a` (key shortcut)
	Items []*SNode `json:"items,omitempty"` // object values / array items
	Rules []SRule  `json:"rules,omitempty"` // in source order
	Note  string   `json:"note,omitempty"`
}

// SRule is one rule of an annotation; Val is the source text of its value.
type SRule struct {
	Name string `json:"name"`
	Val  string `json:"val"`
}

func L(lit string, rules ...SRule) *SNode { return &SNode{Kind: 'l', Lit: lit, Rules: rules} }
func R(ref string, rules ...SRule) *SNode { return &SNode{Kind: 'r', Lit: ref, Rules: rules} }
func O(keys []string, items []*SNode, rules ...SRule) *SNode {
	return &SNode{Kind: 'o', Keys: keys, Items: items, Rules: rules}
}
func A(items []*SNode, rules ...SRule) *SNode { return &SNode{Kind: 'a', Items: items, Rules: rules} }
func Ru(name, val string) SRule               { return SRule{name, val} }

func (n *SNode) WithNote(s string) *SNode { c := *n; c.Note = s; return &c }

// Layout: presentation choices that must not change the meaning (C14).
type Layout struct {
	Pad        string `json:"pad"`        // EXTRA padding between tokens: "" (canonical), " ", "   ", "\t"
	NL         string `json:"nl"`         // "\n", "\r\n", "\r"
	LeadBlank  int    `json:"lead"`       // blank lines before
	TrailBlank int    `json:"trail"`      // blank lines after
	Ann        string `json:"ann"`        // "inline" | "multi" | "multi-broken"
	QuoteNames bool   `json:"quoteNames"` // rule names in quotes
	EscNames   bool   `json:"escNames"`   // with QuoteNames: the last letter of the name written as a \\u escape
	EscValues  bool   `json:"escValues"`  // type names inside the values of type / or / allOf / additionalProperties written with a JSON escape ("\\u0040cat", "intege\\u0072")
	Comments   string `json:"comments"`   // "" | "eol" | "eol-bare" | "own-line" | "own-line-bare" | "block"
	Indent     string `json:"indent"`
	Glue       bool   `json:"glue"` // no blank at all between an element and its annotation (`1// {min: 1}`)
}

var Canonical = Layout{Pad: "", NL: "\n", Ann: "inline", Indent: "\t"}

func (l Layout) Name() string {
	pad := map[string]string{"": "pad0", " ": "pad1", "   ": "pad3", "\t": "tab"}[l.Pad]
	nl := map[string]string{"\n": "lf", "\r\n": "crlf", "\r": "cr", "mix0": "mixed-cr-first", "mix1": "mixed-lf-first", "mix2": "mixed-crlf-first"}[l.NL]
	if l.Glue {
		pad += "+glued"
	}
	s := pad + "," + nl + "," + l.Ann
	if l.QuoteNames {
		s += ",quoted"
		if l.EscNames {
			s += "-escaped"
		}
	}
	if l.EscValues {
		s += ",escaped-type-names"
	}
	if l.Comments != "" {
		s += ",#" + l.Comments
	}
	if l.LeadBlank+l.TrailBlank > 0 {
		s += ",blank"
	}
	return s
}

// annotation renders the annotation of a node ("" when it has none).
func (l Layout) annotation(n *SNode, indent string) string {
	if len(n.Rules) == 0 && n.Note == "" {
		return ""
	}
	var body strings.Builder
	if len(n.Rules) > 0 {
		sep := l.Pad + ", " + l.Pad
		open, close, brk := "{", "}", ""
		if l.Ann == "multi-broken" || l.Ann == "multi-broken-colon" {
			brk = l.NL + indent + "   "
			sep = "," + brk
			open, close = "{"+brk, l.NL+indent+"}"
		}
		body.WriteString(open)
		for i, r := range n.Rules {
			if i > 0 {
				body.WriteString(sep)
			}
			name := r.Name
			if l.QuoteNames {
				if l.EscNames && name != "" {
					name = name[:len(name)-1] + fmt.Sprintf("\\u%04x", name[len(name)-1])
				}
				name = `"` + name + `"`
			}
			val := r.Val
			if l.QuoteNames {
				val = quoteInnerNames(val, l.EscNames)
			}
			if l.EscValues {
				switch r.Name {
				case "type", "or", "allOf", "additionalProperties":
					val = escTypeNames(val)
				}
			}
			if l.Pad != "" {
				val = padInnerColons(val, l.Pad)
			}
			if l.Ann == "multi-broken-colon" {
				// a line break on either side of the colon
				// (a bare name ends at the first blank; only a quoted one may be followed
				// by a line break before its colon)
				if i%2 == 0 || !l.QuoteNames {
					body.WriteString(name + ":" + brk + val)
				} else {
					body.WriteString(name + brk + ": " + val)
				}
				continue
			}
			body.WriteString(name + l.Pad + ":" + " " + l.Pad + val)
		}
		body.WriteString(close)
	}
	if n.Note != "" {
		if len(n.Rules) > 0 {
			body.WriteString(" - ")
		}
		body.WriteString(n.Note)
	}
	if l.Ann == "inline" {
		return "// " + l.Pad + body.String()
	}
	return "/* " + l.Pad + body.String() + " " + l.Pad + "*/"
}

var builtinTypeNames = map[string]bool{"integer": true, "float": true, "string": true, "boolean": true, "null": true, "object": true, "array": true, "any": true,
	"mixed": true, "enum": true, "decimal": true, "email": true, "uri": true, "uuid": true, "date": true, "datetime": true}

// escTypeNames rewrites every quoted type name inside a rule value with one JSON escape:
// the @ of a user type name, the last letter of a built-in name. The string is the same.
func escTypeNames(v string) string {
	var b strings.Builder
	for i := 0; i < len(v); {
		if v[i] != '"' {
			b.WriteByte(v[i])
			i++
			continue
		}
		j := i + 1
		for j < len(v) && v[j] != '"' {
			if v[j] == '\\' {
				j++
			}
			j++
		}
		content := v[i+1 : min(j, len(v))]
		switch {
		case strings.Contains(content, "\\"):
		case strings.HasPrefix(content, "@") && len(content) > 1:
			content = "\\u0040" + content[1:]
		case builtinTypeNames[content]:
			content = content[:len(content)-1] + fmt.Sprintf("\\u%04x", content[len(content)-1])
		}
		b.WriteString(`"` + content + `"`)
		i = j + 1
	}
	return b.String()
}

// quoteInnerNames puts the bare names inside a rule value (the keys of the rule-sets
// of an `or` list) in quotes, like the names of the annotation itself.
func quoteInnerNames(v string, esc bool) string {
	var b strings.Builder
	for i := 0; i < len(v); {
		c := v[i]
		switch {
		case c == '"':
			j := i + 1
			for j < len(v) && v[j] != '"' {
				if v[j] == '\\' {
					j++
				}
				j++
			}
			if j < len(v) {
				j++
			}
			b.WriteString(v[i:j])
			i = j
		case c >= 'a' && c <= 'z' || c >= 'A' && c <= 'Z':
			j := i
			for j < len(v) && (v[j] >= 'a' && v[j] <= 'z' || v[j] >= 'A' && v[j] <= 'Z') {
				j++
			}
			k := j
			for k < len(v) && (v[k] == ' ' || v[k] == '\t') {
				k++
			}
			name := v[i:j]
			if k < len(v) && v[k] == ':' {
				if esc {
					name = name[:len(name)-1] + fmt.Sprintf("\\u%04x", name[len(name)-1])
				}
				name = `"` + name + `"`
			}
			b.WriteString(name)
			i = j
		default:
			b.WriteByte(c)
			i++
		}
	}
	return b.String()
}

// padInnerColons puts the padding before the colon of every name inside a rule value
// (the rules of the rule-sets of an `or` list), as the printer does for the names of
// the annotation itself.
func padInnerColons(v, pad string) string {
	var b strings.Builder
	inStr := false
	for i := 0; i < len(v); i++ {
		c := v[i]
		switch {
		case inStr:
			if c == '\\' && i+1 < len(v) {
				b.WriteByte(c)
				i++
				c = v[i]
			} else if c == '"' {
				inStr = false
			}
		case c == '"':
			inStr = true
		case c == ':':
			b.WriteString(pad)
		}
		b.WriteByte(c)
	}
	return b.String()
}

func (l Layout) padOr(def string) string {
	if l.Pad == "" {
		return def
	}
	return l.Pad
}

type printer struct {
	l     Layout
	lines []string
}

func (p *printer) emit(line string) { p.lines = append(p.lines, line) }

// Print renders the model, one example element per line.
func (n *SNode) Print(l Layout) string {
	if strings.HasPrefix(l.NL, "mix") {
		// every line break in its own style, in rotation: CR, LF, CRLF, ... starting at the
		// given offset (a CR directly followed by an LF reads as one CRLF: a blank line less)
		rot := int(l.NL[3] - '0')
		l2 := l
		l2.NL = "\n"
		styles := []string{"\r", "\n", "\r\n"}
		var b strings.Builder
		k := rot
		for _, c := range n.Print(l2) {
			if c == '\n' {
				b.WriteString(styles[k%3])
				k++
				continue
			}
			b.WriteRune(c)
		}
		return b.String()
	}
	p := &printer{l: l}
	p.node(n, "", "", "")
	var out []string
	for i := 0; i < l.LeadBlank; i++ {
		out = append(out, "")
	}
	for i, ln := range p.lines {
		if i > 0 {
			switch l.Comments {
			case "own-line":
				out = append(out, "# a user comment")
			case "own-line-bare":
				out = append(out, "#")
			case "block":
				// (single and double hashes inside the block are part of its text)
				out = append(out, "###", "a block, see #1 and #2", "## comment", "###")
			}
		}
		if l.Comments == "eol" {
			ln += " " + l.Pad + "# c"
		}
		if l.Comments == "eol-bare" { // an empty comment: the line ends right after the '#'
			ln += " " + l.Pad + "#"
		}
		out = append(out, ln)
	}
	s := strings.Join(out, l.NL)
	for i := 0; i < l.TrailBlank; i++ {
		s += l.NL
	}
	return s
}

// node prints n preceded by prefix (`"k": `) and followed by suffix (`,`).
func (p *printer) node(n *SNode, indent, prefix, suffix string) {
	l := p.l
	ann := l.annotation(n, indent)
	withAnn := func(s string) string {
		if ann == "" {
			return s
		}
		if l.Glue {
			return s + ann
		}
		return s + " " + l.Pad + ann
	}
	switch n.Kind {
	case 'l', 'r':
		lit := n.Lit
		if n.Kind == 'r' && strings.Contains(lit, "|") && (l.Pad != "" || l.Glue) {
			// the bars of a choice spaced like every other token of this layout
			names := strings.Split(lit, "|")
			for i := range names {
				names[i] = strings.TrimSpace(names[i])
			}
			sep := "|"
			if !l.Glue {
				sep = " " + l.Pad + "|" + l.Pad + " "
			}
			lit = strings.Join(names, sep)
		}
		p.emit(withAnn(indent + prefix + lit + suffix))
	case 'o':
		if len(n.Items) == 0 {
			p.emit(withAnn(indent + prefix + "{" + l.Pad + "}" + suffix))
			return
		}
		p.emit(withAnn(indent + prefix + "{"))
		for i, c := range n.Items {
			sfx := ""
			if i != len(n.Items)-1 {
				sfx = l.Pad + ","
			}
			p.node(c, indent+l.Indent, n.Keys[i]+l.Pad+": "+l.Pad, sfx)
		}
		p.emit(indent + "}" + suffix)
	case 'a':
		if len(n.Items) == 0 {
			p.emit(withAnn(indent + prefix + "[" + l.Pad + "]" + suffix))
			return
		}
		p.emit(withAnn(indent + prefix + "["))
		for i, c := range n.Items {
			sfx := ""
			if i != len(n.Items)-1 {
				sfx = l.Pad + ","
			}
			p.node(c, indent+l.Indent, "", sfx)
		}
		p.emit(indent + "]" + suffix)
	}
}

// Walk visits every node (pre-order).
func (n *SNode) Walk(f func(*SNode)) {
	f(n)
	for _, c := range n.Items {
		c.Walk(f)
	}
}

// Model is a project: a root, named types and named enum rules.
type Model struct {
	Root       *SNode            `json:"root"`
	Types      map[string]*SNode `json:"types,omitempty"`
	Enums      map[string]string `json:"enums,omitempty"` // rule text
	RegexTypes map[string]string `json:"regex,omitempty"`
}
