// Package gen: E-GEN — finite grammars of schema projects and JSON values, printed
// to text under explicit layouts.
package gen

import "strings"

// JV is a JSON value whose scalars and keys are kept as *source text* (so that
// escape spellings are part of the model).
type JV struct {
	Kind  byte     // 'o' 'a' 'l'(literal)
	Lit   string   // literal source text, e.g. `1`, `"a\n"`, `true`
	Keys  []string // key source text with quotes
	Items []JV
}

func Lit(s string) JV                 { return JV{Kind: 'l', Lit: s} }
func Obj(keys []string, vals []JV) JV { return JV{Kind: 'o', Keys: keys, Items: vals} }
func Arr(vals ...JV) JV               { return JV{Kind: 'a', Items: vals} }

// WS describes a whitespace layout for plain JSON.
type WS struct {
	Name     string
	AfterSep string // after ':' and ','
	Pad      string // around every structural token
	NL       string // "" = single line; otherwise one token per line with this terminator
	Lead     string
	Trail    string
}

var JSONLayouts = []WS{
	{Name: "compact"},
	{Name: "spaced", AfterSep: " ", Lead: " ", Trail: " "},
	{Name: "tabs", Pad: "\t"},
	{Name: "lines-lf", NL: "\n", Trail: "\n"},
	{Name: "lines-crlf", NL: "\r\n", Lead: "\r\n", Trail: "\r\n"},
	{Name: "lines-cr", NL: "\r"},
	// a line break of either kind around every structural token (also between a key and its colon)
	{Name: "crlf-around-every-token", Pad: "\r\n"},
	{Name: "cr-around-every-token", Pad: "\r"},
}

func (v JV) Render(ws WS) string {
	var b strings.Builder
	b.WriteString(ws.Lead)
	v.render(&b, ws, 0)
	b.WriteString(ws.Trail)
	return b.String()
}

func (v JV) render(b *strings.Builder, ws WS, depth int) {
	nl := func(d int) {
		if ws.NL != "" {
			b.WriteString(ws.NL)
			b.WriteString(strings.Repeat("  ", d))
		}
	}
	switch v.Kind {
	case 'l':
		b.WriteString(v.Lit)
	case 'o':
		b.WriteString("{" + ws.Pad)
		for i, k := range v.Keys {
			nl(depth + 1)
			b.WriteString(k + ws.Pad + ":" + ws.AfterSep + ws.Pad)
			v.Items[i].render(b, ws, depth+1)
			if i != len(v.Keys)-1 {
				b.WriteString(ws.Pad + "," + ws.AfterSep)
			}
		}
		if len(v.Keys) > 0 {
			nl(depth)
		}
		b.WriteString(ws.Pad + "}")
	case 'a':
		b.WriteString("[" + ws.Pad)
		for i := range v.Items {
			nl(depth + 1)
			v.Items[i].render(b, ws, depth+1)
			if i != len(v.Items)-1 {
				b.WriteString(ws.Pad + "," + ws.AfterSep)
			}
		}
		if len(v.Items) > 0 {
			nl(depth)
		}
		b.WriteString(ws.Pad + "]")
	}
}
