package gen

// The "annotated-model" family used by C04, C14, C15, C08: models of <= 2 levels,
// <= 2 children, every node kind, ordered selections of <= 2 (thorough 3) rules
// from a per-kind pool, notes, and a fixed set of registered types / enum rules.

var BaseTypes = map[string]*SNode{
	"@a": O([]string{`"x"`}, []*SNode{L(`1`)}),
	"@b": L(`"s"`),
	"@c": O([]string{`"y"`}, []*SNode{L(`"z"`)}),
	"@l": A([]*SNode{L(`1`)}),
	"@n": L(`5`, Ru("min", "1")),
}
var BaseEnums = map[string]string{"@e": `[1, 2, "ab", true, null]`}

type leafSpec struct {
	kind byte
	lit  string
	pool []SRule
}

var big19 = "9223372036854775807"
var big20 = "99999999999999999999"
var two63 = "9223372036854775808"
var maxU64 = "18446744073709551615"
var two64 = "18446744073709551616"
var two64p3 = "18446744073709551619"

var leafSpecs = []leafSpec{
	{'l', `1`, []SRule{Ru("min", "0"), Ru("min", "1"), Ru("min", "-0"), Ru("min", "1.0"), Ru("max", "1"), Ru("max", "5.0"), Ru("exclusiveMinimum", "true"), Ru("exclusiveMaximum", "false"),
		Ru("type", `"integer"`), Ru("const", "true"), Ru("const", "false"), Ru("nullable", "true"), Ru("nullable", "false"),
		Ru("enum", `[1, 2]`), Ru("enum", `@e`), Ru("or", `["integer", "string"]`), Ru("or", `[{type: "integer", min: 0}, {type: "string"}]`), Ru("or", `[{type: "enum", enum: [1, "x"]}, {type: "boolean"}]`), Ru("or", `["uuid", "integer"]`), Ru("or", `["integer"]`), Ru("type", `""`), Ru("or", `["", "integer"]`), Ru("or", `[{type: ""}, {type: "integer"}]`), Ru("enum", `""`),
		Ru("type", `"any"`), Ru("type", `"@a"`), Ru("type", `"mixed"`), Ru("type", `"enum"`)}},
	{'l', `1.5`, []SRule{Ru("precision", "1"), Ru("precision", "2"), Ru("precision", two63), Ru("min", "0.5"), Ru("min", "0.50"), Ru("max", "1.50"), Ru("type", `"float"`), Ru("type", `"decimal"`), Ru("nullable", "true"), Ru("const", "true"), Ru("or", `["float", "email"]`)}},
	{'l', `0.123456`, []SRule{Ru("precision", "6"), Ru("precision", "7"), Ru("precision", "10"), Ru("precision", "16"), Ru("min", "0"), Ru("nullable", "true")}},
	{'l', `-12.0000001`, []SRule{Ru("precision", "7"), Ru("precision", "9"), Ru("max", "0")}},
	{'l', `"ab"`, []SRule{Ru("minLength", "0"), Ru("minLength", "2"), Ru("maxLength", "2"), Ru("maxLength", big19), Ru("maxLength", big20), Ru("maxLength", two63), Ru("maxLength", maxU64), Ru("minLength", two64), Ru("maxLength", two64p3), Ru("regex", `"^a"`), Ru("regex", `"a\\.b|ab"`),
		Ru("type", `"string"`), Ru("const", "true"), Ru("enum", `["ab", "c"]`), Ru("enum", `@e`), Ru("type", `"@b"`), Ru("or", `["@b", "integer"]`), Ru("or", `[{type: "string", maxLength: 3}, {type: "@a"}]`), Ru("nullable", "true")}},
	{'l', `"a@b.cc"`, []SRule{Ru("type", `"email"`), Ru("nullable", "true"), Ru("minLength", "1")}},
	{'l', `"2021-01-02"`, []SRule{Ru("type", `"date"`), Ru("const", "true")}},
	{'l', `"2021-01-02T07:23:12+03:00"`, []SRule{Ru("type", `"datetime"`), Ru("nullable", "true")}},
	{'l', `"550e8400-e29b-41d4-a716-446655440000"`, []SRule{Ru("type", `"uuid"`)}},
	{'l', `"http://x.y/z"`, []SRule{Ru("type", `"uri"`), Ru("regex", `"x"`)}},
	{'l', `true`, []SRule{Ru("type", `"boolean"`), Ru("const", "true"), Ru("nullable", "true"), Ru("enum", `[true, false]`), Ru("or", `["date", "boolean"]`)}},
	{'l', `null`, []SRule{Ru("type", `"null"`), Ru("nullable", "true"), Ru("enum", `[null, 1]`), Ru("type", `"any"`), Ru("or", `["datetime", "null"]`)}},
	{'r', `@a`, []SRule{Ru("nullable", "true"), Ru("type", `"mixed"`), Ru("type", `"integer"`), Ru("min", "1")}},
	{'r', `@a | @b`, []SRule{Ru("nullable", "true"), Ru("type", `"mixed"`), Ru("type", `"string"`), Ru("or", `["@a", "@b"]`)}},
	{'r', `@a|@b`, []SRule{Ru("nullable", "true")}},
	{'r', `@a  |	@c | @b`, nil},
	{'r', `@a | @b | @a`, []SRule{Ru("nullable", "true")}},
	{'o', ``, []SRule{Ru("additionalProperties", "true"), Ru("additionalProperties", "false"), Ru("additionalProperties", `"string"`), Ru("additionalProperties", `"@a"`), Ru("additionalProperties", `"any"`),
		Ru("allOf", `"@a"`), Ru("allOf", `["@a", "@c"]`), Ru("allOf", `["@a"]`), Ru("allOf", `""`), Ru("additionalProperties", `""`), Ru("nullable", "true"), Ru("type", `"object"`), Ru("or", `[{type: "object"}, {type: "string"}]`), Ru("or", `["uri", "object"]`), Ru("type", `"@a"`), Ru("type", `"any"`)}},
	{'a', ``, []SRule{Ru("minItems", "0"), Ru("maxItems", "0"), Ru("minItems", "1"), Ru("maxItems", "3"), Ru("maxItems", big20), Ru("maxItems", maxU64), Ru("maxItems", two64p3), Ru("type", `"array"`), Ru("nullable", "true"), Ru("or", `["array", "@a"]`), Ru("type", `"any"`), Ru("type", `"@l"`), Ru("or", `["@l", "string"]`)}},
	{'r', `@l`, []SRule{Ru("nullable", "true")}},
	{'r', `@n | @l`, nil},
	{'l', `7`, []SRule{Ru("type", `"@n"`), Ru("or", `["@n", "@b"]`)}},
}

var containerPools = map[byte][]SRule{
	'o': {Ru("additionalProperties", "true"), Ru("additionalProperties", `"@a"`), Ru("allOf", `"@a"`), Ru("allOf", `["@a", "@c"]`), Ru("nullable", "true"), Ru("type", `"object"`),
		Ru("type", `"any"`), Ru("or", `[{type: "object"}, {type: "string"}]`)},
	'a': {Ru("minItems", "1"), Ru("maxItems", "2"), Ru("minItems", "3"), Ru("type", `"array"`), Ru("nullable", "true"), Ru("type", `"any"`), Ru("or", `["array", "string"]`)},
}

var Notes = []string{"", "note", "two words", "a-b c", "-1 disables it", "- dash first", "text {x", "\u3000wide\u00a0", "\fff\v", "tail \u2003"}

// selections returns all ordered selections of <= k rules with distinct names.
func selections(pool []SRule, k int) [][]SRule {
	out := [][]SRule{nil}
	var rec func(cur []SRule)
	rec = func(cur []SRule) {
		if len(cur) == k {
			return
		}
		for _, r := range pool {
			dup := false
			for _, c := range cur {
				if c.Name == r.Name {
					dup = true
				}
			}
			if dup {
				continue
			}
			next := append(append([]SRule{}, cur...), r)
			out = append(out, next)
			rec(next)
		}
	}
	rec(nil)
	return out
}

func mk(spec leafSpec, rules []SRule) *SNode {
	switch spec.kind {
	case 'o':
		return O(nil, nil, rules...)
	case 'a':
		return A(nil, rules...)
	case 'r':
		return R(spec.lit, rules...)
	}
	return L(spec.lit, rules...)
}

// Leaves enumerates annotated leaf nodes (scalars, references, empty containers).
// asProperty adds optional:true / optional:false variants.
func Leaves(k int, asProperty bool, visit func(*SNode)) {
	for _, sp := range leafSpecs {
		pool := sp.pool
		if asProperty {
			pool = append(append([]SRule{}, pool...), Ru("optional", "true"), Ru("optional", "false"))
		}
		for _, sel := range selections(pool, k) {
			visit(mk(sp, sel))
		}
	}
}

// AnnotatedFamily enumerates the family. level: 1 = reduced (C14/C08 quick), 2 = C04
// quick, 3 = thorough.
func AnnotatedFamily(level int, visit func(*Model)) {
	emit := func(root *SNode) {
		visit(&Model{Root: root, Types: BaseTypes, Enums: BaseEnums})
	}
	kRoot := 2
	if level >= 3 {
		kRoot = 3
	}
	if level >= 4 {
		kRoot = 4
	}
	if level >= 5 {
		kRoot = 5
	}
	if level == 1 {
		kRoot = 1
	}
	// (1) root leaves, with notes
	var rootLeaves []*SNode
	Leaves(kRoot, false, func(n *SNode) { rootLeaves = append(rootLeaves, n) })
	for i, n := range rootLeaves {
		emit(n)
		// notes on a rotating subset keeps the product bounded
		note := Notes[1+i%(len(Notes)-1)]
		emit(n.WithNote(note))
	}
	// (2) one-property objects / one-item arrays, each with every annotated child
	kChild := 2
	if level == 1 {
		kChild = 1
	}
	if level >= 4 {
		kChild = 3
	}
	var props, items []*SNode
	Leaves(kChild, true, func(n *SNode) { props = append(props, n) })
	Leaves(kChild, false, func(n *SNode) { items = append(items, n) })
	for i, c := range props {
		emit(O([]string{`"k"`}, []*SNode{c}))
		if i%3 == 0 {
			emit(O([]string{`"k"`}, []*SNode{c.WithNote(Notes[1+i%(len(Notes)-1)])}))
		}
	}
	for i, c := range items {
		emit(A([]*SNode{c}))
		if i%3 == 0 {
			emit(A([]*SNode{c.WithNote(Notes[1+i%(len(Notes)-1)])}))
		}
	}
	// (3) annotated non-empty containers
	var p1, i1 []*SNode
	Leaves(1, true, func(n *SNode) { p1 = append(p1, n) })
	Leaves(1, false, func(n *SNode) { i1 = append(i1, n) })
	for _, sel := range selections(containerPools['o'], kChild) {
		for i, c := range p1 {
			if level == 1 && i%4 != 0 {
				continue
			}
			emit(O([]string{`"k"`}, []*SNode{c}, sel...))
		}
	}
	for _, sel := range selections(containerPools['a'], kChild) {
		for i, c := range i1 {
			if level == 1 && i%4 != 0 {
				continue
			}
			emit(A([]*SNode{c}, sel...))
		}
	}
	// (4) two children: pairs of 1-rule leaves (different keys, incl. a key shortcut)
	step := 1
	if level == 1 {
		step = 5
	} else if level == 2 {
		step = 2
	}
	for i := 0; i < len(p1); i += step {
		for j := 0; j < len(p1); j += step {
			emit(O([]string{`"k"`, `"m"`}, []*SNode{p1[i], p1[j]}))
		}
		emit(O([]string{`"k"`, `@b`}, []*SNode{p1[i], L(`1`)}))
		emit(O([]string{`@b`, `"k"`}, []*SNode{L(`"v"`), p1[i]}))
	}
	for i := 0; i < len(i1); i += step {
		for j := 0; j < len(i1); j += step {
			emit(A([]*SNode{i1[i], i1[j]}))
		}
	}
	// (5) two levels: object/array holding a non-empty container holding a leaf
	for i := 0; i < len(i1); i += step {
		leaf := i1[i]
		innerO := O([]string{`"in"`}, []*SNode{leaf}, Ru("optional", "true"))
		innerA := A([]*SNode{leaf}, Ru("minItems", "1"))
		emit(O([]string{`"k"`}, []*SNode{innerO}))
		emit(O([]string{`"k"`, `"m"`}, []*SNode{innerA, L(`2`, Ru("min", "1"))}))
		emit(A([]*SNode{O([]string{`"in"`}, []*SNode{leaf}).WithNote("inner note")}, Ru("maxItems", "5")))
		emit(A([]*SNode{A([]*SNode{leaf}), L(`"s"`)}))
	}
}
