#!/bin/bash
# run.sh <Cxx> <quick|thorough> — rebuild the checker from /repo's current working
# tree (hooks enabled through `go build -tags verif -overlay`), run one check.
# Env: VERIF_MUT=<patch> applies a patch to scratch copies through the overlay
#      (used by the self-test; /repo is never modified).
set -u
V=/verif
export GOFLAGS=-mod=mod GOPROXY=off GOSUMDB=off GOTOOLCHAIN=local
ID="${1:?property id}"; TIER="${2:-quick}"
B="$V/.build"
if [ -n "${VERIF_MUT:-}" ]; then
  # mutation runs get binaries, scratch files, evidence and replays of their own
  B="$V/.build-mut"; export VERIF_BUILD=.build-mut VERIF_OUT="$B/out"
fi
mkdir -p "$B"
build() {
  (
    flock 9
    cd "$V/mc" || exit 2
    cp /repo/go.sum "$V/mc/go.sum" 2>/dev/null
    go build -o "$B/mkoverlay" ./cmd/mkoverlay || exit 2
    if [ -n "${VERIF_MUT:-}" ]; then
      "$B/mkoverlay" -out "$B/overlay.json" -scratch "$B/mut" -mut "$VERIF_MUT" || exit 2
    else
      "$B/mkoverlay" -out "$B/overlay.json" || exit 2
    fi
    go build -tags verif -overlay "$B/overlay.json" -o "$B/mc" ./cmd/mc || exit 2
  ) 9>"$B/.lock"
}
# instrumented binary (mc-inst): "sync" -> verifshim/vsync, map ranges -> venv.Keys
build_inst() {
  (
    flock 9
    cd "$V/mc" || exit 2
    cp /repo/go.sum "$V/mc/go.sum" 2>/dev/null
    go build -o "$B/mkoverlay" ./cmd/mkoverlay || exit 2
    if [ -n "${VERIF_MUT:-}" ]; then
      "$B/mkoverlay" -out "$B/overlay-inst.json" -scratch "$B/mut-inst" -inst "$B/inst" -mut "$VERIF_MUT" || exit 2
    else
      "$B/mkoverlay" -out "$B/overlay-inst.json" -inst "$B/inst" || exit 2
    fi
    go build -tags "verif verifinst" -overlay "$B/overlay-inst.json" -o "$B/mc-inst" ./cmd/mc || exit 2
  ) 9>"$B/.lock-inst"
}
# free-running race-detector pass for C11: plain overlay (real sync), -race
build_racer() {
  (
    flock 9
    cd "$V/mc" || exit 2
    go build -race -tags verif -overlay "$B/overlay.json" -o "$B/racer" ./cmd/racer || exit 2
  ) 9>"$B/.lock-racer"
}
if [ "$ID" = "build" ]; then build && build_inst && build_racer; exit $?; fi
case "$ID" in
  C09|C10|C11)
    if ! build >"$B/build.log" 2>&1; then
      cat "$B/build.log"; echo "ENGINE-ERROR: build failed"; exit 2
    fi
    if ! build_inst >"$B/build-inst.log" 2>&1; then
      cat "$B/build-inst.log"
      echo "ENGINE-ERROR: instrumented build failed"
      exit 2
    fi
    if [ "$ID" = "C11" ] && ! build_racer >"$B/build-racer.log" 2>&1; then
      cat "$B/build-racer.log"; echo "ENGINE-ERROR: race build failed"; exit 2
    fi
    cd "$V" && exec "$B/mc-inst" check "$ID" --tier "$TIER"
    ;;
esac
if ! build >"$B/build.log" 2>&1; then
  cat "$B/build.log"
  echo "ENGINE-ERROR: build failed"
  exit 2
fi
cd "$V" && exec "$B/mc" check "$ID" --tier "$TIER"
