#!/bin/bash
# run.sh <Cxx> <quick|thorough> — rebuild the checker from /repo's current working
# tree (hooks enabled through `go build -tags verif -overlay`), run one check.
# Env: VERIF_MUT=<patch> applies a patch to scratch copies through the overlay
#      (used by the self-test; /repo is never modified).
set -u
V=/verif
export GOFLAGS=-mod=mod GOPROXY=off GOSUMDB=off GOTOOLCHAIN=local
ID="${1:?property id}"; TIER="${2:-quick}"
B="$V/.build"; mkdir -p "$B"
build() {
  (
    flock 9
    cd "$V/mc" || exit 2
    cp /repo/go.sum "$V/mc/go.sum" 2>/dev/null
    go build -o "$B/mkoverlay" ./cmd/mkoverlay || exit 2
    if [ -n "${VERIF_MUT:-}" ]; then
      "$B/mkoverlay" -out "$B/overlay.json" -mut "$VERIF_MUT" || exit 2
    else
      "$B/mkoverlay" -out "$B/overlay.json" || exit 2
    fi
    go build -tags verif -overlay "$B/overlay.json" -o "$B/mc" ./cmd/mc || exit 2
  ) 9>"$B/.lock"
}
if [ "$ID" = "build" ]; then build; exit $?; fi
if ! build >"$B/build.log" 2>&1; then
  cat "$B/build.log"
  echo "ENGINE-ERROR: build failed"
  exit 2
fi
cd "$V" && exec "$B/mc" check "$ID" --tier "$TIER"
